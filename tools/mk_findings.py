"""Developer tool (not used by any check): writes /verif/known_findings.json with encoded witnesses.
The file it writes is committed and read-only at check time."""
import json
import os
import sys

import numpy as onp

sys.path.insert(0, os.path.dirname(os.path.dirname(os.path.abspath(__file__))))
from vf.engines import prim as P  # noqa
from vf.gen.catalogue import case  # noqa

A = lambda *s: (onp.arange(1, int(onp.prod(s)) + 1, dtype=float).reshape(s) * 0.37 - 1.1) * onp.where(onp.arange(int(onp.prod(s))).reshape(s) % 2, 1.0, -0.8)
C = lambda *s: A(*s) + 1j * (A(*s)[..., ::-1] * 0.5 + 0.3)
W = lambda n, cx=False: (onp.eye(n) * 2.5 + A(n, n) * 0.1) + (0.1j * A(n, n).T if cx else 0)
SPD = lambda n, cx=False: (lambda m: m @ onp.conj(m.T) + onp.eye(n) * 1.5)(A(n, n) * 0.3 + (0.2j * A(n, n).T if cx else 0))

F = []


def add(id, props, what, match, witness, status="open", **kw):
    d = {"id": id, "status": status, "properties": props, "what": what, "match": match, "witness": P.encode_case(witness) if "prim" in witness else witness}
    d.update(kw)
    F.append(d)


PRIM_ALL = ["C01", "C02", "C04", "C05", "C07", "C09", "C15"]

add("KF-sign-complex", ["C14"],
    "np.sign is registered as non-differentiable (piecewise constant), which holds for real input; for complex input NumPy >= 2 returns z/|z|, which varies smoothly, so the derivative of anything built on sign(z) is silently zero. A repair needs a dtype-dependent wrapper (sign must stay an untraced plain value for real input, as the property lists it) plus a new VJP/JVP pair - recorded, not fixed",
    {"engine": "values", "family": "nograd_constancy", "fn": "sign", "template": {"__re__": ".*c$"}, "symptom": ["not_locally_constant"]},
    {"kind": "nograd_constancy", "fn": "sign", "template": "uc"})

# C06
from vf.common import enc  # noqa

c1 = onp.array([True, False, True, False])
c2 = onp.array([True, False, False, False])

# ---------------------------------------------------------------- repaired defects ('fix:' commits in /repo)
cc = onp.array([[True, False, True], [False, False, True]])


def fixed(id, props, commit, what, witness, **kw):
    add(id, props, "fixed: %s %s" % (commit, what), {"never": "fixed entries suppress nothing"}, witness, status="fixed", commit=commit, **kw)


fixed("FX-thread-local-trace", ["C20"], "8403d98", "process-global trace-depth counter let a nested differentiation in one thread receive a trace id <= its enclosing trace when other threads entered/left traces (24 of 252 interleavings of two nested-grad programs gave 0.0/8.0 instead of 24.0)",
      {"kind": "schedule", "cfg": {"progs": ["T1", "T1"], "kinds": ["enter_after", "exit_before"], "mode": "dfs"}, "choices": [0, 0, 0, 0, 1, 0, 0, 0, 0, 0]})
fixed("FX-repeat-negative-axis", ["C01", "C04", "C07"], "74d8c1c", "np.repeat(x, k, axis<0) returned a wrong cotangent", case("repeat", [A(2, 3), 2], {"axis": -1}))
fixed("FX-tile-short-reps", ["C01", "C04", "C07"], "d65245b", "np.tile(x, reps) with len(reps) < x.ndim returned a wrong cotangent", case("tile", [A(2, 3), 2]))
fixed("FX-transpose-negative-axes", ["C01", "C04", "C07"], "e65ec18", "np.transpose(x, axes) with negative axes returned a cotangent of the wrong shape/values", case("transpose", [A(2, 3, 4), (-1, 0, 1)]))
fixed("FX-absolute-at-zero", ["C01", "C02"], "b263239", "np.absolute at 0 produced NaN derivatives", case("absolute", [onp.array([0.0, 1.5])], point="kink:zero"))
fixed("FX-where-unbroadcast", ["C01", "C05", "C07"], "a4eef2d", "np.where with a broadcast/scalar branch returned a cotangent shaped like the output", case("where", [cc, 2.0, A(2, 3)], argnum=1))
fixed("FX-cross-unbroadcast", ["C01", "C05"], "c651c7b", "np.cross((3,), (n,3)) returned an (n,3) cotangent for the (3,) operand", case("cross", [A(3), A(4, 3)], argnum=0))
fixed("FX-full-array-fill", ["C01", "C05"], "4fd9ac2", "np.full(shape, array_fill) returned a 0-d cotangent", case("full", [(2, 3), A(3)], argnum=1))
fixed("FX-outer-nd", ["C01", "C05"], "581f4ac", "np.outer with 0-d or 2-D operands returned a cotangent of the wrong shape", case("outer", [A(2, 2), A(3)], argnum=0))
fixed("FX-inner-real-complex", ["C05", "C09"], "f3ccf04", "np.inner(real, complex) returned a complex gradient for the real operand", case("inner", [A(3), C(3)], argnum=0))
fixed("FX-einsum-sublist-broadcast", ["C01", "C05"], "cf2d28b", "einsum in sublist form did not sum over size-1 broadcast dimensions", case("einsum", [A(1, 3), [0, 1], A(2, 3), [0, 1], [0, 1]], argnum=0, tags=["sublist"]))
fixed("FX-jvp-sort-multid", ["C02", "C05"], "305fcf2", "forward-mode sort/partition of a multi-dimensional array returned a tangent of the wrong shape", case("sort", [A(3, 4)], {"axis": 0}, tags=["multid"]))
fixed("FX-jvp-chooser-negative-tuple-axis", ["C02"], "5ac47d9", "forward-mode max/min with negative entries in a tuple axis returned NaN / misplaced tangents", case("max", [onp.cos(A(2, 3, 4) * 7.3)], {"axis": (-1, 0)}))
fixed("FX-fftn-repeated-axes-guard", ["C01", "C15"], "544c541", "fft2/fftn/ifft2/ifftn with repeated axes and s silently returned a wrong gradient (guard unreachable)", case("fftn", [A(3, 4)], {"s": (4, 5), "axes": (0, 0)}, ns="fft", tags=["repeated_axes", "with_s"]))
fixed("FX-rfft-n-keyword", ["C01", "C15"], "c6184f7", "rfft(x, n=k) by keyword was parsed as if n were absent (odd-length guard skipped, wrong gradient)", case("rfft", [A(6)], {"n": 4}, ns="fft"))
fixed("FX-rfft-norm-modes", ["C01", "C09"], "23db547", "rfft*/irfft* with norm='backward'/'forward' returned gradients off by a factor N", case("rfft", [A(6)], {"norm": "forward"}, ns="fft"))
fixed("FX-solve-broadcast-b", ["C01", "C05"], "bcb52e1", "linalg.solve with b broadcast over the batch returned a cotangent with the broadcast shape", case("solve", [onp.stack([W(2), W(2) * 1.3]), A(2, 3)], ns="linalg", argnum=1, tags=["bcast_b"]))
fixed("FX-norm-inf-and-negative-axes", ["C01", "C02", "C15"], "0d0905e", "linalg.norm(ord=inf) returned NaN gradients and a tuple axis with negative entries a wrong gradient", case("norm", [A(2, 2, 2, 3)], {"axis": (-1, -2)}, ns="linalg"))
fixed("FX-diag-nonsquare", ["C01", "C05"], "2ae9395", "np.diag of a non-square matrix returned a square cotangent", case("diag", [A(2, 4)], tags=["nonsquare"]))
fixed("FX-tril-triu-1d", ["C01", "C05", "C15"], "952e4e6", "np.tril/np.triu of a 1-D array returned an (n,n) cotangent for the (n,) argument", case("tril", [A(4)]))
fixed("FX-diff-n-exceeds-length", ["C05"], "bf307a4", "np.diff(x, n) with n >= the axis length (empty output) returned zeros of the wrong shape/kind", case("diff", [A(2, 2), 3], tags=["n_exceeds"]))
F.append({"id": "FX-assert-guards", "status": "fixed", "properties": ["C15"], "commit": "7077fba", "what": "fixed: property=C15 7077fba the unsupported-mode guard of np.pad's VJP and the leading-dimension guard of np.broadcast_to's VJP were `assert`s: under `python -O` a wrong gradient was returned silently (observed by the C15 sub-run under python -O; no separate witness: that sub-run re-executes the whole unsupported-option catalogue on every run)", "match": {"never": "fixed entries suppress nothing"}})
fixed("FX-bool-list-index", ["C11"], "9518a4b", "x[[True, False, True]] (a Python list of booleans) was converted to the integer index [1, 0, 1]: cotangent scattered to the wrong positions", {"kind": "index", "x": enc(A(3)), "idx": enc([True, False, True]), "cls": "bool_list", "wseed": 1})
fixed("FX-jvp-chooser-numpy-int-axis", ["C02"], "9eededa", "forward-mode max/min/amax/amin with axis=np.int64(k): NaN / wrongly shaped tangent", case("max", [onp.cos(A(3, 4) * 7.3)], {"axis": onp.int64(1)}))
fixed("FX-norm-complex", ["C09", "C05", "C04"], "b7b976c", "linalg.norm of complex input: VJP returned the conjugate of the documented convention, JVP a complex tangent for the real output", case("norm", [C(4)], ns="linalg"))
fixed("FX-select-dtype", ["C06", "C02", "C05"], "40f09be", "autograd.numpy.select returned an integer array (and integer tangents) when no element of a traced float choice was selected",
      {"C06": {"kind": "wrapper", "form": {"name": "select", "args": enc([[c1, c2], [onp.array([1, -3, 2, 5]), onp.array([0.5, 1.5, 2.5, 3.5])]]), "kw": enc({}), "tr": None, "prop": False}},
       "default": P.encode_case(case("select", [[onp.zeros(4, dtype=bool)], [A(4)]], argnum=0, form="selectfun"))})
fixed("FX-array-ndmin", ["C01", "C02", "C05"], "0fd5721", "np.array(list_of_arrays, ndmin>natural rank): VJP returned a gradient with the prepended axes, JVP scattered into the wrong slot", case("array", [[A(2), A(2)]], {"ndmin": 3}, argnum=0, form="listfun"))
fixed("FX-linspace-array-endpoints", ["C01", "C02", "C05", "C15"], "feeb86a", "np.linspace with an array endpoint and a scalar endpoint: the scalar endpoint received a vector gradient / wrongly shaped tangent", case("linspace", [A(2), 0.7, 4], argnum=1, tags=["array_endpoints"]))
fixed("FX-pad-jvp-modes", ["C02", "C15"], "8d5fb8b", "forward-mode np.pad padded the tangent for the non-linear statistics modes (silently wrong) and ignored stat_length / reflect_type", case("pad", [A(5), 1, "maximum"], tags=["unsupported_mode"]), witness_mode="fwd")
fixed("FX-make-diagonal-dtype", ["C05", "C09"], "b957bf9", "make_diagonal allocated float64: complex input lost its imaginary part; diagonal()/make_diagonal() returned real gradients for complex arguments", case("diagonal", [C(3, 3)], {"axis1": -1, "axis2": -2}))
fixed("FX-solve-broadcast-a", ["C01", "C05", "C09"], "efdfd7a", "np.linalg.solve(a, b) with a single matrix a broadcast against a batch of right-hand sides: the vector/matrix heuristic of grad_solve misfired and the cotangent for a had the wrong shape", case("solve", [W(2), A(3, 2, 3)], ns="linalg", argnum=0, tags=["bcast_a"]))
fixed("FX-solve-vec-b-batched-a", ["C01", "C09"], "d6c80b9", "np.linalg.solve(a, b) with a stack of matrices a and one vector b: the adjoint solve read the (batch, M) cotangent as a single matrix (silently wrong when batch == M, an exception otherwise)", case("solve", [onp.stack([W(2), W(2).T + 0.3]), A(2)], ns="linalg", argnum=1, tags=["vec_b_batched_a"]))
fixed("FX-astype-int-passes-gradient", ["C14"], "74f8075", "x.astype(int) / astype(bool) (integer-valued, piecewise constant) let the cotangent through unchanged in reverse mode: d/dx sum(x*x.astype(int)) returned x.astype(int)+x instead of x.astype(int)", {"kind": "composition", "q": "astype_int", "mode": "rev"})
fixed("FX-eigh-zero-traced-cotangent", ["C07"], "b9b4a66", "second derivatives through np.linalg.eigh at a point where the eigenvector cotangent is exactly zero but varies with the input (squared residual about the evaluation point): grad_eigh skipped the eigenvector term (anp.any on a traced value) and the Hessian lost J'J of the eigenvectors", dict(case("eigh", [SPD(3) + onp.diag([0.0, 2.0, 5.0])], ns="linalg", tags=["values+vectors"], gauge="eigvec"), outer="quad0"))
fixed("FX-trace-id-worker-thread-inside-trace", ["C08"], "f25b59d", "a nested differentiation evaluated in a worker thread started inside the enclosing traced function got the same trace id as the enclosing trace (per-thread counter from 8403d98 restarts at 0): derivatives silently confused; ids now come from one ever-increasing counter", {"spec": {"depth": 2, "ops": ["grad", "grad"], "masks": [0, 1], "template": 2, "threaded": True, "eseed": [0, 0, 9161]}})
fixed("FX-pinv-complex", ["C09"], "0ffe893", "np.linalg.pinv of a complex matrix: the rule used plain transposes / the unconjugated cotangent where the differential involves the conjugate transpose", case("pinv", [C(3, 2)], ns="linalg"))
fixed("FX-slogdet-complex-sign", ["C09"], "9b5e67c", "np.linalg.slogdet of a complex matrix: the cotangent of the sign output det/|det| was ignored", case("slogdet", [W(2, True)], ns="linalg", tags=["both_outputs"]))
fixed("FX-cholesky-complex", ["C09"], "534c93e", "np.linalg.cholesky of a complex Hermitian matrix: the rule symmetrised/solved with plain transposes (no conjugate) and was wrong for complex input", case("cholesky", [SPD(3, True)], ns="linalg", domain="herm"))
fixed("FX-diagonal-nonsquare", ["C01", "C04", "C05", "C07", "C09"], "3f41113", "np.diagonal(x, 0, -1, -2) of an array whose last two dimensions differ: make_diagonal built a square block and the cotangent had the wrong shape", case("diagonal", [A(2, 4)], {"axis1": -1, "axis2": -2}))
fixed("FX-kron-nd", ["C01", "C04", "C07", "C09", "C15"], "6685ddf", "np.kron with an operand of 3 or more dimensions: grad_kron reshaped as if both operands were at most 2-D and silently returned a wrong cotangent", case("kron", [A(2, 2, 2), A(2, 2, 2)], argnum=0))
fixed("FX-order-A-fortran-layout", ["C01", "C02", "C09"], "8699557", "np.reshape / np.ravel / ndarray.flatten with order='A' on a Fortran-contiguous argument: VJP and JVP applied 'A' to the cotangent's / tangent's own layout and the derivative entries landed at permuted positions", case("ravel", [A(2, 3)], {"order": "A"}, layout="F"))
fixed("FX-einsum-sublist-trailing-ellipsis", ["C01", "C05"], "8eaa00c", "einsum in sublist form with an operand whose sublist ends in Ellipsis and that is broadcast over leading ellipsis dimensions: the cotangent was summed over the last axes instead of the first ellipsis axes (wrong values / shape)", case("einsum", [A(3, 3), [0, Ellipsis], A(3, 3, 3), [0, Ellipsis], [0, Ellipsis]], argnum=0, tags=["sublist", "from_string"]))
fixed("FX-untake-into-numpy-scalar", ["C11"], "24c5162", "a 0-d array that receives two dense cotangents and then an indexing cotangent: the running total had become a NumPy scalar and np.add.at failed (TypeError: first operand must be array)", {"kind": "mix", "x": enc(onp.array(1.5)), "terms": [{"t": "sparse", "idx": enc(None), "cls": "r0:newaxis"}, {"t": "dense", "f": "lin"}, {"t": "dense", "f": "lin"}], "order": [0, 1, 2], "assoc": "left", "via": "direct", "wseed": 4, "k": 1, "m": 2})
fixed("FX-list-functions-real-piece-complex-gradient", ["C05"], "63be247", "concatenate / vstack / hstack / column_stack / append / array with a real differentiated piece next to complex pieces returned a complex gradient for the real piece", case("concatenate", [[A(3), C(3)]], argnum=0, form="listfun", tags=["kindmix"]))
fixed("FX-deepcopy-of-tracer", ["C15"], "ce746a7", "copy.deepcopy of a traced value (or of a container holding traced values) duplicated the recorded graph: everything computed from the copy silently lost its derivative (reverse mode)", {"kind": "protocol", "prog": "deepcopy_and_original", "mode": "rev"})
fixed("FX-jvp-writes-tangent-into-out-buffer", ["C02", "C06"], "e5d0bff", "forward mode with out=<buffer> on a function whose JVP is \"same\" / def_linear (multiply, negative, sum, cumsum, dot, outer, ...): the tangent was written into the buffer holding the primal result; value and derivative silently wrong", dict(case("multiply", [A(3), A(3) * 0.7 + 0.2], argnum=0, tags=["out_buffer"]), fresh_out=[[3], "float64"]), witness_mode="fwd")
fixed("FX-power-exponent-zero-second-order", ["C07"], "04afaff", "x**y differentiated jointly in (x, y) at y exactly 0: the VJP/JVP w.r.t. x replaced the exponent by a constant there, so mixed second derivatives were wrong and reverse-over-reverse, forward-over-reverse and the FD of the gradient disagreed", dict(case("power", [onp.array([0.7, 1.3, 2.1]), 0.0], argnum=0, tags=["special_scalar"]), joint=[0, 1]))
fixed("FX-grad-named-bound-method", ["C16"], "2d3ebd6", "grad_named(obj.method, name) (also class methods and callable objects) counted the implicit first parameter: the gradient was silently taken with respect to the FOLLOWING argument (IndexError for the last one)", {"kind": "map", "P": {"A": {"__nd__": "f", "dtype": "float64", "shape": [1, 1], "v": ["-0x1.47481ae1d7d70p+0"]}, "B": {"__nd__": "f", "dtype": "float64", "shape": [1], "v": ["0x1.49621fe60918bp-5"]}, "C": {"__nd__": "f", "dtype": "float64", "shape": [1], "v": ["-0x1.31b217c745700p-3"]}, "in": [1], "out": [1]}, "x": {"__nd__": "f", "dtype": "float64", "shape": [1], "v": ["-0x1.c4565b81de60cp-1"]}, "xkind": "array", "a": 1.0011082209541926, "b": 0.057087305600629024, "scale": 1.4627881084273395, "argform": "unary", "vseed": 607542720})
fixed("FX-jvp-writes-tangent-into-positional-out-buffer", ["C02", "C06"], "d2ac487", "forward mode with the output buffer passed POSITIONALLY (np.multiply(a, b, buf), np.sum(a, None, None, buf)) on \"same\" / def_linear functions: the keyword-only repair e5d0bff still let the tangent overwrite the primal held by the buffer", dict(case("multiply", [A(3), 1.7], argnum=0, tags=["out_buffer", "out_positional"]), fresh_out=[[3], "float64"], fresh_out_pos=2), witness_mode="fwd")
fixed("FX-array-dtype-change-gradient-kind", ["C05"], "bb974d5", "np.array(x, dtype=...) on an array / scalar argument with a dtype that changes kind or precision (real -> complex, double -> single): the cotangent was handed back unchanged, so a real argument got a complex gradient (a float64 one a float32 gradient)", case("array", [A(3)], {"dtype": complex}, tags=["dtype_change"]))
fixed("FX-sinc-at-zero", ["C01", "C02", "C07"], "199cdf8", "np.sinc at exactly 0 (0/0 in the rule): NaN derivative in both modes at a point where the function is smooth; next to 0 the rule lost its digits to cancellation", case("sinc", [onp.array([0.3, 0.0, -0.7, -0.0, 1e-9])], tags=["zero_point"]))
fixed("FX-fft-vjp-writes-into-out-buffer", ["C10"], "c12359b", "np.fft.fft / ifft / fft2 / fftn / rfft* / irfft* called with out=buf (NumPy >= 2): the VJP rules forwarded out= to the adjoint transform, so a later call of the VJP function overwrote the primal result held by the caller's buffer", {"kind": "prim_repeat", "case": P.encode_case(dict(case("fft2", [A(2, 4)], ns="fft", tags=["out_buffer"]), fresh_out=[[2, 4], "complex128"]))})
fixed("FX-where-jvp-broadcast", ["C05", "C02"], "423a953", "forward-mode np.where returned a tangent with the branch's shape/kind instead of the output's", case("where", [cc, A(3), A(2, 2, 3)], argnum=1), witness_mode="fwd")

out = {"_comment": "Known findings: genuine defects of HIPS/autograd that are recorded rather than repaired (status open) and defects repaired by a 'fix:' commit (status fixed; fixed entries suppress nothing - their witnesses are re-run on every check and a failing one is an ordinary VIOLATION). `match` is a conjunction over fields of the case signature (lists = any of; {__re__}: regex; {__has__}: list membership); never a seed, hash or random value. Read-only at run time.", "findings": F}
FIXED = json.load(open(os.path.join(os.path.dirname(os.path.abspath(__file__)), "fixed_entries.json")))["fixed"] if os.path.exists(os.path.join(os.path.dirname(os.path.abspath(__file__)), "fixed_entries.json")) else []
out["findings"] = F + FIXED
with open(os.path.join(os.path.dirname(os.path.dirname(os.path.abspath(__file__))), "known_findings.json"), "w") as f:
    json.dump(out, f, indent=1)
print("wrote", len(out["findings"]), "findings")
