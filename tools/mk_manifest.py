"""Developer tool: writes MANIFEST.json from the registry."""
import json, os, sys
sys.path.insert(0, os.path.dirname(os.path.dirname(os.path.abspath(__file__))))
PY = "/venv/bin/python"
ENG = {"C01": "prim", "C02": "prim", "C03": "graph", "C04": "prim", "C05": "prim", "C06": "values", "C07": "prim", "C08": "nesting", "C09": "prim", "C10": "graph", "C11": "graph", "C12": "containers", "C13": "vspaces", "C14": "values", "C15": "battery", "C16": "ops", "C17": "ext", "C18": "checker", "C19": "history", "C20": "threads"}
TXT = {
 "C01": ("exploration", "runtime monitoring: reference-model monitor (Richardson finite differences of raw NumPy) at the make_vjp boundary over a generated call-configuration catalogue", "Every differentiable primitive is executed through make_vjp over a generated catalogue of call configurations (ranks 0-4, broadcast patterns, scalar/array, axis/keepdims/offset/norm/shape classes, argnum, function/method/operator form) and the cotangent is compared with J^T g from a self-consistent 6th-order finite-difference oracle on plain NumPy; kink points get one-sided bounds. Held on the configurations observed; classes not generated stay unexamined.", "3.C01"),
 "C02": ("exploration", "runtime monitoring: reference-model monitor (finite differences of raw NumPy) at the make_jvp boundary", "Same catalogue through make_jvp; tangent compared entry-wise with the FD directional derivative and structurally with the output.", "3.C02"),
 "C03": ("exploration", "runtime monitoring: offline checker over recorded rule-application logs (exactly-once, consumers-first, dead-never, conservation) + FD reference on generated dataflow programs", "Random dataflow programs run under probes that log every rule application per backward pass; an offline checker verifies exactly-once / ordering / conservation on the recorded log, user logging primitives cross-check through the public API, values are compared with FD and forward mode; autograd.util.toposort is monitored on random DAGs.", "3.C03"),
 "C04": ("exploration", "runtime monitoring: algebraic adjoint-identity and linearity monitor on both modes (no numerical differentiation)", "For every catalogue case on which both modes return: <conj g, JVP(v)> = <conj VJP(g), v> at 1e-10 and linearity of both maps.", "3.C04"),
 "C05": ("exploration", "runtime monitoring: structural-descriptor monitor on every VJP/JVP result", "Structure (nesting, keys, shape, real/complex, default-precision dtype) of every VJP result vs its argument and every JVP result vs the output over catalogue + kind/broadcast/precision mixes.", "3.C05"),
 "C06": ("exploration", "runtime monitoring: differential monitor traced-vs-plain-vs-NumPy primal values, tracer-leak and input-hash sanitizers", "Primal values under make_vjp/make_jvp at depth 1-2, plain autograd.numpy calls and NumPy itself compared for structure/dtype/value over the catalogue, wrapper argument forms and random programs; tracer-leak scan; input hashes; isinstance/type replacements.", "3.C06"),
 "C07": ("exploration", "runtime monitoring: cross-mode agreement monitor for second-order derivatives with FD-of-gradient reference", "phi=<w,f>: rev-over-rev, fwd-over-rev, rev-over-fwd HVPs and fwd-over-fwd v'Hv compared with each other, with FD of the first-order gradient and a raw second difference; Hessian symmetry.", "3.C07"),
 "C08": ("exploration", "runtime monitoring: reference-model monitor (independent symbolic differentiator) on enumerated nested differentiation expressions", "All operator assignments x capture subsets x templates at nesting depth 2 and 3 (exhaustive), depth 4 and vector-valued inner variables sampled; value vs exact symbolic reference.", "3.C08"),
 "C09": ("exploration", "runtime monitoring: reference-model monitor for the documented complex convention (realified FD Jacobian)", "Catalogue with every real/complex assignment; reverse result vs conj(J_R^T conj g), forward vs J_R v.", "3.C09"),
 "C10": ("exploration", "runtime monitoring: write sanitizer (read-only + hashed foreign arrays) and bitwise repeat-call monitor on VJP/JVP closures", "Generated programs with alias chains at the end node run with frozen and with writable hashed inputs/constants/cotangents; closures called in generated histories and compared bitwise with fresh single calls; accumulation-branch counters.", "3.C10"),
 "C11": ("exploration", "runtime monitoring: exact scatter (bincount) oracle on generated index expressions and sparse/dense mixing programs, branch-coverage counters on add_outgrads", "Every index kind on ranks 0-4 vs bincount bookkeeping in both modes; k sparse + m dense uses in generated orders vs analytic dense sum; all six accumulation branches must be observed.", "3.C11"),
 "C12": ("exploration", "runtime monitoring: FD reference on programs over generated nested containers; flatten/unflatten contracts", "Random nested tuples/lists/dicts reached through container operations chosen at random; gradient structure and realified values vs FD on plain Python containers; forward mode through the adjoint pairing; flatten inverse/linear/commutes-with-grad.", "3.C12"),
 "C13": ("exploration", "runtime monitoring: contract (axiom) evaluation on vspace objects of generated values", "Vector-space axioms, basis properties, equality iff structure, mut_add(None,x) freshness for generated scalars, NumPy scalar types, arrays (incl. 0-d, empty, reduced precision) and containers.", "3.C13"),
 "C14": ("exploration", "runtime monitoring: exact-zero and untraced-value monitors over operators x argument types x non-differentiable function list", "Independent / piecewise-constant programs through every operator and argument type must return exact zeros of the right structure; every live nograd function returns an untraced NumPy-equal value and is locally constant; x*q(x) differentiates to q(x); control flow on tracers follows the plain branch.", "3.C14"),
 "C15": ("exploration", "runtime monitoring: namespace battery with loud/dependent/independent outcome classification and local-variation oracle on raw NumPy", "Every exported callable x argument templates x modes: raised, or dependent and FD-correct, or independent and locally constant; unsupported-option catalogue must raise or be right; loudness cases must raise.", "3.C15"),
 "C16": ("exploration", "runtime monitoring: reference-model monitor (one FD Jacobian / Hessian) for all differential operators", "Random smooth maps with in/out ranks 0-3: every operator compared with contractions of one FD Jacobian/Hessian; argnum forms, extra args, primal/aux values.", "3.C16"),
 "C17": ("exploration", "runtime monitoring: logging user primitives as probes (rule-invocation logs) over exhaustively enumerated registration APIs, arities, subsets and level splits; checkpoint differential monitor", "Rule logs (argnum, ans, args, kwargs, call counts) and routed values for every API x arity x subset x level split; missing rules must raise; checkpoint(f) vs f in value and order 1-3 derivatives.", "3.C17"),
 "C18": ("exploration", "runtime monitoring: outcome log of real check_grads executions with an exact binomial verdict per planted defect", "check_grads run on correct rules (0 rejections tolerated) and on planted defects (reject p>=0.99 tested at alpha=1e-9) across argument kinds, modes, orders.", "3.C18"),
 "C19": ("fault_enumeration", "runtime monitoring: fault injection (sys.monitoring LINE failpoints at every line event inside autograd/, k-th call / k-th rule faults, warning->error) with bitwise canary comparison against a fresh interpreter; registry snapshots", "Every fault point of three victim programs (escaping or caught by an enclosing differentiation that retries), all k for forward-call and rule faults, random call histories; after every fault canaries must equal the fresh-process values bitwise and registries must be unchanged.", "3.C19"),
 "C20": ("exploration", "runtime monitoring: deterministic cooperative scheduler (yield injection at trace entry/exit and between operations) with exhaustive DFS over interleavings of bounded configurations, random burst schedules and a free-running stress; per-thread solo-equality oracle", "All interleavings of bounded 2- and 3-thread configurations are executed against the real code; larger ones sampled; each thread's result must be bitwise its solo result.", "3.C20"),
}
NOTE = {p: "trusted: CPython, NumPy, the harness oracles (vf/common.py, vf/symdiff.py); covers only executions produced; not a proof" for p in ENG}
checks = []
for pid in sorted(ENG):
    cat, tech, text, ref = TXT[pid]
    checks.append({
        "property_id": pid,
        "quick_cmd": "%s -m vf.run %s --tier quick" % (PY, pid),
        "thorough_cmd": "%s -m vf.run %s --tier thorough" % (PY, pid),
        "evidence_file": "evidence/%s.json" % pid,
        "replay_cmd_template": "%s -m vf.run %s --replay {path}" % (PY, pid),
        "engine": ENG[pid],
        "level_claimed": {"category": cat, "text": text, "design_ref": "DESIGN.md section " + ref},
        "level_note": NOTE[pid],
        "technique": tech,
    })
m = {
 "version": 1,
 "setup_cmd": "/venv/bin/python -c \"import numpy, sys; print('numpy', numpy.__version__, 'python', sys.version.split()[0])\" && mkdir -p evidence replays .work",
 "hooks": {
  "guard": "HIPS_AUTOGRAD_VERIF",
  "enable": "no source hooks: every probe is installed from /verif at import time by rebinding module globals / class attributes that autograd looks up at call time (DESIGN.md 1.2); the guard variable is reserved and unused",
  "baseline_off_cmd": "cd /repo && /venv/bin/python -m pytest -q -p no:cacheprovider --timeout=900 -n 16",
  "source_commits": [],
  "add_only": True
 },
 "engines": [{"name": e, "path": "vf/engines/%s.py" % e, "serves_properties": sorted(p for p in ENG if ENG[p] == e), "kind_free_text": "runtime monitor / workload generator"} for e in sorted(set(ENG.values()))],
 "checks": checks,
 "not_applicable": [],
 "notes": "All 20 properties are decided by runtime monitoring of the real code; exit 0 held / 1 violation / 2 inconclusive. Known findings: known_findings.json (open findings print KNOWN-FINDING lines; fixed entries are regression witnesses). Repairs of genuine defects are unguarded 'fix:' commits in /repo."
}
json.dump(m, open(os.path.join(os.path.dirname(os.path.dirname(os.path.abspath(__file__))), "MANIFEST.json"), "w"), indent=1)
print("ok", len(checks))
