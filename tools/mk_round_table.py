"""Developer tool: print the DESIGN.md table of one round of seeded changes from seeded/<prefix>*/meta.json.
usage: mk_round_table.py R5- [notes.json]   (notes: {name-without-prefix-or-full-name: "what was added"})"""
import glob, json, os, sys

VERIF = os.path.dirname(os.path.dirname(os.path.abspath(__file__)))
prefix = sys.argv[1]
notes = json.load(open(sys.argv[2])) if len(sys.argv) > 2 else {}
print("| seeded change (%s) | flagged by (now) | first run | added when the first run missed it |" % prefix)
print("|---|---|---|---|")
for d in sorted(glob.glob(os.path.join(VERIF, "seeded", prefix + "*"))):
    name = os.path.basename(d)
    m = json.load(open(os.path.join(d, "meta.json")))
    now = " ".join(sorted(m.get("checks_flagging", {}))) or "none"
    fr = m.get("first_run") or {}
    first = " ".join(sorted(fr.get("flagged", []))) or "none"
    if first == now:
        first = "same"
    short = name[len(prefix):]
    pid, rest = short.split("-", 1)[0], short.split("-", 1)[1]
    note = notes.get(name) or notes.get(short) or fr.get("note") or "-"
    if m.get("note"):
        note = (note + "; " if note != "-" else "") + m["note"]
    print("| %s-%s | %s | %s | %s |" % (pid, rest.replace("-", " "), now, first, note))
