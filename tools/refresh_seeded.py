"""Developer tool: re-run the checks recorded for each seeded change (after the machinery was
strengthened) and refresh meta.json; the first recorded outcome is kept under `first_run`."""
import json, os, subprocess, sys, glob
VERIF = os.path.dirname(os.path.dirname(os.path.abspath(__file__)))
only = sys.argv[1:] 
for d in sorted(glob.glob(os.path.join(VERIF, "seeded", "*"))):
    name = os.path.basename(d)
    if only and name not in only:
        continue
    mp = os.path.join(d, "meta.json")
    m = json.load(open(mp))
    props = sorted(set(list(m.get("checks_flagging", {})) + list(m.get("checks_silent", []))))
    if "first_run" not in m:
        m["first_run"] = {"flagged": sorted(m.get("checks_flagging", {})), "silent": m.get("checks_silent", [])}
    r = subprocess.run([sys.executable, os.path.join(VERIF, "tools", "try_mutant.py"), os.path.join(d, "patch.diff"), "--props", ",".join(props)], capture_output=True, text=True)
    try:
        res = json.loads(r.stdout.strip().splitlines()[-1])
    except Exception:
        print(name, "FAILED", r.stdout[-300:], r.stderr[-300:]); continue
    if not res.get("applied"):
        print(name, "patch no longer applies to /repo HEAD"); m["note"] = "patch no longer applies to the current /repo HEAD (a later fix: commit touched the same lines)"; json.dump(m, open(mp, "w"), indent=1); continue
    m["checks_flagging"] = res["flagged"]; m["checks_silent"] = res["silent"]
    json.dump(m, open(mp, "w"), indent=1)
    print(name, "flagged", sorted(res["flagged"]), "silent", res["silent"], "| first run flagged", m["first_run"]["flagged"])
