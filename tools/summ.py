import json,sys,collections
d=json.load(open(sys.argv[1]))
g=collections.defaultdict(list)
for v in d['violations']:
    s=v['sig']; g[(s.get('ns'),s['prim'],s.get('symptom'),s.get('mode'))].append(v)
for k,vs in sorted(g.items(), key=lambda kv: str(kv[0])):
    print(k,len(vs))
    seen=set()
    for v in vs:
        s=v['sig']; key=(tuple(s['args']),tuple(sorted(s['kw'].items())),s['argnum'],s.get('form'),s.get('point'))
        if key in seen: continue
        seen.add(key)
        if len(seen)>int(sys.argv[2]) if len(sys.argv)>2 else 4: break
        print('    ',s['form'],s['args'],s['kw'],'argnum',s['argnum'],s.get('point'),s.get('tags'),'|',(v['detail'] or '')[:110])
for k in ('suspect_raises','harness_errors'):
    if d['sets'].get(k):
        print(k); [print('   ',x) for x in d['sets'][k]]
print(d['not_judged'])
