"""Developer tool: apply a seeded change to a scratch worktree of /repo (never to /repo itself while other
runs are using it) and run the quick checks against it through VERIF_REPO.

usage: try_mutant.py <patch.diff> [--props C01,C05] [--suite] [--tier quick]"""
import argparse, json, os, subprocess, sys, time

VERIF = os.path.dirname(os.path.dirname(os.path.abspath(__file__)))
ALL = ["C%02d" % i for i in range(1, 21)]

def sh(cmd, **kw):
    return subprocess.run(cmd, shell=True, capture_output=True, text=True, **kw)

def main():
    ap = argparse.ArgumentParser()
    ap.add_argument("diff")
    ap.add_argument("--props", default=",".join(ALL))
    ap.add_argument("--suite", action="store_true")
    ap.add_argument("--tier", default="quick")
    ap.add_argument("--wt", default="/tmp/wt-eval-%d" % os.getpid())
    ap.add_argument("--seed", default="0")
    a = ap.parse_args()
    wt = a.wt
    sh("git -C /repo worktree remove --force %s" % wt)
    r = sh("git -C /repo worktree add -q --detach %s HEAD" % wt)
    assert r.returncode == 0, r.stderr
    out = {"diff": a.diff, "applied": False, "suite": None, "flagged": {}, "silent": []}
    try:
        r = sh("git -C %s apply %s" % (wt, os.path.abspath(a.diff)))
        if r.returncode != 0:
            print("APPLY FAILED", r.stderr); return 2
        out["applied"] = True
        if a.suite:
            r = sh("cd %s && PYTHONPATH=%s /venv/bin/python -m pytest -q -p no:cacheprovider --timeout=900 -n 16 tests 2>&1 | tail -1" % (wt, wt))
            out["suite"] = r.stdout.strip()[-120:]
            print("suite:", out["suite"])
        env = dict(os.environ, VERIF_REPO=wt, VERIF_SEED=a.seed)
        for p in a.props.split(","):
            t0 = time.time()
            r = subprocess.run(["/venv/bin/python", "-m", "vf.run", p, "--tier", a.tier, "--no-evidence"], cwd=VERIF, env=env, capture_output=True, text=True)
            lines = r.stdout.splitlines()
            v = [l for l in lines if l.startswith("VIOLATION")]
            if r.returncode == 1:
                first = ""
                for i, l in enumerate(lines):
                    if l.startswith("VIOLATION") and i + 1 < len(lines):
                        first = lines[i + 1].strip()[:260]; break
                out["flagged"][p] = {"n": len(v), "first": first}
                print("%s FLAGGED (%d sigs, %.0fs) %s" % (p, len(v), time.time() - t0, first))
            elif r.returncode == 2:
                print("%s INCONCLUSIVE %s" % (p, [l for l in lines if l.startswith("INCONCLUSIVE")][:2]))
                out["flagged"][p] = {"inconclusive": True}
            else:
                out["silent"].append(p)
                print("%s silent (%.0fs)" % (p, time.time() - t0))
        # clean replays written for the mutant
        sh("git -C %s clean -fdq replays" % VERIF)
    finally:
        sh("git -C /repo worktree remove --force %s" % wt)
    print(json.dumps(out))
    return 0

if __name__ == "__main__":
    sys.exit(main())
