"""Developer tool: vet a sub-agent's seeded change and record it under /verif/seeded/<name>/.
usage: vet_seed.py <wt_dir> <letter> <PID> <name> [--props C01,C05,...]"""
import argparse, json, os, shutil, subprocess, sys
VERIF = os.path.dirname(os.path.dirname(os.path.abspath(__file__)))
def sh(cmd):
    return subprocess.run(cmd, shell=True, capture_output=True, text=True)
ap = argparse.ArgumentParser()
ap.add_argument("wt"); ap.add_argument("letter"); ap.add_argument("pid"); ap.add_argument("name")
ap.add_argument("--props", default=None)
a = ap.parse_args()
diff = os.path.join(a.wt, "mutant_%s.diff" % a.letter); demo = os.path.join(a.wt, "demo_%s.py" % a.letter); meta = os.path.join(a.wt, "meta_%s.json" % a.letter)
ev = "/tmp/wt-vet-%d" % os.getpid()
sh("git -C /repo worktree remove --force %s" % ev)
assert sh("git -C /repo worktree add -q --detach %s HEAD" % ev).returncode == 0
rec = {"property": a.pid, "name": a.name}
try:
    shutil.copy(demo, os.path.join(ev, "demo.py"))
    r = sh("cd %s && PYTHONPATH=%s /venv/bin/python demo.py" % (ev, ev)); rec["demo_clean_exit"] = r.returncode
    r = sh("git -C %s apply %s" % (ev, diff)); rec["applies"] = r.returncode == 0
    r = sh("cd %s && PYTHONPATH=%s /venv/bin/python demo.py" % (ev, ev)); rec["demo_mutant_exit"] = r.returncode; rec["demo_mutant_tail"] = (r.stdout + r.stderr)[-300:]
    r = sh("cd %s && PYTHONPATH=%s /venv/bin/python -m pytest -q -p no:cacheprovider --timeout=900 -n 16 tests 2>&1 | tail -1" % (ev, ev)); import re as _re
    rec["suite"] = _re.sub(r"\x1b\[[0-9;]*m", "", r.stdout.strip())[-120:]
finally:
    sh("git -C /repo worktree remove --force %s" % ev)
ok = rec["demo_clean_exit"] == 0 and rec["applies"] and rec["demo_mutant_exit"] != 0 and "496 passed" in rec["suite"] and "failed" not in rec["suite"]
rec["vetted"] = ok
print(json.dumps(rec, indent=1))
if not ok:
    sys.exit(1)
props = a.props or a.pid
r = subprocess.run([sys.executable, os.path.join(VERIF, "tools", "try_mutant.py"), diff, "--props", props], capture_output=True, text=True)
print("\n".join(l[:300] for l in r.stdout.splitlines() if l.startswith("C")))
res = json.loads(r.stdout.strip().splitlines()[-1])
d = os.path.join(VERIF, "seeded", a.name); os.makedirs(d, exist_ok=True)
shutil.copy(diff, os.path.join(d, "patch.diff")); shutil.copy(demo, os.path.join(d, "demo.py"))
m = json.load(open(meta)) if os.path.exists(meta) else {}
out = {"property": a.pid, "source": "independent sub-agent given only the property text and a scratch worktree", "summary": m.get("summary"), "needs": m.get("needs"), "files": m.get("files"),
       "vetting": {"demo_exit_clean_tree": rec["demo_clean_exit"], "demo_exit_with_change": rec["demo_mutant_exit"], "baseline_suite_with_change": rec["suite"]},
       "ran": "tools/vet_seed.py: scratch worktree of /repo HEAD, `git apply patch.diff`, baseline suite with PYTHONPATH=<worktree>, demo.py with/without the change, then `VERIF_REPO=<worktree> python -m vf.run <id> --tier quick` for: " + props,
       "checks_flagging": {k: v for k, v in res["flagged"].items()}, "checks_silent": res["silent"]}
json.dump(out, open(os.path.join(d, "meta.json"), "w"), indent=1)
print("recorded", d, "flagged:", sorted(res["flagged"]), "silent:", res["silent"])
