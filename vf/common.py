"""Shared utilities: repo import, JSON codec for cases, structural descriptors, realification,
finite-difference oracle, sanitizers (freeze/hash, tracer-leak scan)."""
import hashlib
import json
import os
import subprocess
import sys

import numpy as onp

VERIF_DIR = os.path.dirname(os.path.dirname(os.path.abspath(__file__)))
REPO = os.path.abspath(os.environ.get("VERIF_REPO", "/repo"))

_ag = None


def setup_repo():
    """Import autograd from VERIF_REPO's *working tree* (pure Python => import == rebuild)."""
    global _ag
    if _ag is not None:
        return _ag
    sys.dont_write_bytecode = True
    if REPO in sys.path:
        sys.path.remove(REPO)
    sys.path.insert(0, REPO)
    import autograd  # noqa

    f = os.path.abspath(autograd.__file__)
    if not f.startswith(REPO + os.sep):
        raise RuntimeError("autograd imported from %s, expected under %s" % (f, REPO))
    _ag = autograd
    return autograd


def tree_rev():
    try:
        h = subprocess.run(["git", "-C", REPO, "rev-parse", "HEAD"], capture_output=True, text=True, timeout=20).stdout.strip()
        d = subprocess.run(["git", "-C", REPO, "status", "--porcelain", "--", "autograd"], capture_output=True, text=True, timeout=20).stdout.strip()
        return {"head": h, "dirty": bool(d)}
    except Exception as e:  # pragma: no cover
        return {"head": "unknown", "dirty": None, "err": repr(e)}


# ----------------------------------------------------------------------------------------------
# JSON codec for case descriptors (exact round trip of small arrays, tuples, slices, ...)
# ----------------------------------------------------------------------------------------------


def enc(v):
    if isinstance(v, onp.ndarray):
        if onp.iscomplexobj(v):
            return {"__nd__": "c", "dtype": str(v.dtype), "shape": list(v.shape), "re": [float.hex(float(t)) for t in v.real.ravel()], "im": [float.hex(float(t)) for t in v.imag.ravel()]}
        if v.dtype.kind == "f":
            return {"__nd__": "f", "dtype": str(v.dtype), "shape": list(v.shape), "v": [float.hex(float(t)) for t in v.ravel()]}
        if v.dtype.kind == "b":
            return {"__nd__": "b", "shape": list(v.shape), "v": [bool(t) for t in v.ravel()]}
        if v.dtype.kind in "iu":
            return {"__nd__": "i", "dtype": str(v.dtype), "shape": list(v.shape), "v": [int(t) for t in v.ravel()]}
        raise TypeError("enc: dtype %s" % v.dtype)
    if isinstance(v, onp.generic):
        if isinstance(v, onp.bool_):
            return bool(v)
        if isinstance(v, onp.integer):
            return {"__npi__": int(v), "dtype": str(v.dtype)}
        if isinstance(v, onp.complexfloating):
            return {"__npc__": [float.hex(float(v.real)), float.hex(float(v.imag))], "dtype": str(v.dtype)}
        return {"__npf__": float.hex(float(v)), "dtype": str(v.dtype)}
    if isinstance(v, bool) or v is None or isinstance(v, (int, str)):
        return v
    if isinstance(v, float):
        return {"__f__": float.hex(v)}
    if isinstance(v, complex):
        return {"__c__": [float.hex(v.real), float.hex(v.imag)]}
    if isinstance(v, tuple):
        return {"__t__": [enc(t) for t in v]}
    if isinstance(v, list):
        return [enc(t) for t in v]
    if isinstance(v, dict):
        return {"__d__": [[enc(k), enc(t)] for k, t in v.items()]}
    if isinstance(v, slice):
        return {"__sl__": [enc(v.start), enc(v.stop), enc(v.step)]}
    if isinstance(v, range):
        return {"__rg__": [v.start, v.stop, v.step]}
    if v is Ellipsis:
        return {"__el__": 1}
    if isinstance(v, onp.dtype):
        return {"__dt__": str(v)}
    if isinstance(v, type) and issubclass(v, onp.generic):
        return {"__dt__": onp.dtype(v).name}
    if v in (float, complex, int, bool):
        return {"__ty__": v.__name__}
    raise TypeError("enc: %r" % (type(v),))


def dec(v):
    if isinstance(v, list):
        return [dec(t) for t in v]
    if isinstance(v, dict):
        if "__nd__" in v:
            k = v["__nd__"]
            sh = tuple(v["shape"])
            if k == "c":
                re = onp.array([float.fromhex(t) for t in v["re"]], dtype=float)
                im = onp.array([float.fromhex(t) for t in v["im"]], dtype=float)
                return (re + 1j * im).astype(v["dtype"]).reshape(sh)
            if k == "f":
                return onp.array([float.fromhex(t) for t in v["v"]], dtype=float).astype(v["dtype"]).reshape(sh)
            if k == "b":
                return onp.array(v["v"], dtype=bool).reshape(sh)
            if k == "i":
                return onp.array(v["v"], dtype=v["dtype"]).reshape(sh)
        if "__npi__" in v:
            return onp.dtype(v["dtype"]).type(v["__npi__"])
        if "__npf__" in v:
            return onp.dtype(v["dtype"]).type(float.fromhex(v["__npf__"]))
        if "__npc__" in v:
            return onp.dtype(v["dtype"]).type(complex(float.fromhex(v["__npc__"][0]), float.fromhex(v["__npc__"][1])))
        if "__f__" in v:
            return float.fromhex(v["__f__"])
        if "__c__" in v:
            return complex(float.fromhex(v["__c__"][0]), float.fromhex(v["__c__"][1]))
        if "__t__" in v:
            return tuple(dec(t) for t in v["__t__"])
        if "__d__" in v:
            return {dec(k): dec(t) for k, t in v["__d__"]}
        if "__sl__" in v:
            return slice(*[dec(t) for t in v["__sl__"]])
        if "__rg__" in v:
            return range(*v["__rg__"])
        if "__el__" in v:
            return Ellipsis
        if "__dt__" in v:
            return onp.dtype(v["__dt__"])
        if "__ty__" in v:
            return {"float": float, "complex": complex, "int": int, "bool": bool}[v["__ty__"]]
        return {k: dec(t) for k, t in v.items()}
    return v


def brief(v, maxlen=400):
    """Human-readable short form of a value for evidence samples."""
    try:
        s = json.dumps(_brief(v))
    except Exception:
        s = repr(v)
    return s if len(s) <= maxlen else s[: maxlen - 3] + "..."


def _brief(v):
    if isinstance(v, onp.ndarray):
        if v.size <= 6:
            return {"nd": str(v.dtype), "shape": list(v.shape), "v": [complex(t).__repr__() if onp.iscomplexobj(v) else float(t) for t in v.ravel()] if v.dtype.kind in "fc" else v.ravel().tolist()}
        return {"nd": str(v.dtype), "shape": list(v.shape)}
    if isinstance(v, onp.generic):
        return repr(v)
    if isinstance(v, (tuple, list)):
        return [_brief(t) for t in v]
    if isinstance(v, dict):
        return {str(k): _brief(t) for k, t in v.items()}
    if isinstance(v, complex):
        return repr(v)
    if isinstance(v, slice):
        return "slice(%s,%s,%s)" % (v.start, v.stop, v.step)
    if v is Ellipsis:
        return "..."
    if isinstance(v, (int, float, str, bool)) or v is None:
        return v
    return repr(v)


# ----------------------------------------------------------------------------------------------
# Structural descriptor (O-struct), realification
# ----------------------------------------------------------------------------------------------

_FLOATS = (float, onp.floating)
_COMPLEX = (complex, onp.complexfloating)


def is_container(v):
    return isinstance(v, (tuple, list, dict))


def _dtype_class(dt):
    dt = onp.dtype(dt)
    return dt.name if dt in (onp.dtype("float64"), onp.dtype("complex128")) else "reduced:" + dt.name


def sdesc(v, dtype_strict=True):
    """Hashable structural descriptor. Python float == np.float64 scalar == 0-d float64 array."""
    if isinstance(v, dict):
        return ("dict", tuple(sorted(((repr(k), sdesc(t, dtype_strict)) for k, t in v.items()))))
    if isinstance(v, tuple) and hasattr(v, "_fields"):
        return ("nt:" + type(v).__name__, tuple(sdesc(t, dtype_strict) for t in v))
    if isinstance(v, tuple):
        return ("tuple", tuple(sdesc(t, dtype_strict) for t in v))
    if isinstance(v, list):
        return ("list", tuple(sdesc(t, dtype_strict) for t in v))
    if isinstance(v, bool):
        return ("leaf", (), "bool", "bool")
    if isinstance(v, int):
        return ("leaf", (), "int", "int")
    if isinstance(v, float):
        return ("leaf", (), "real", "float64")
    if isinstance(v, complex):
        return ("leaf", (), "complex", "complex128")
    if isinstance(v, (onp.ndarray, onp.generic)):
        a = onp.asarray(v)
        k = a.dtype.kind
        kind = {"f": "real", "c": "complex", "i": "int", "u": "int", "b": "bool"}.get(k, "other:" + k)
        return ("leaf", tuple(a.shape), kind, _dtype_class(a.dtype) if dtype_strict and k in "fc" else kind)
    if v is None:
        return ("none",)
    return ("other", type(v).__name__)


def sdesc_diff(a, b):
    """Return symptom string describing first difference between two descriptors, or None."""
    if a == b:
        return None
    if a[0] != b[0]:
        return "wrong_structure"
    if a[0] == "leaf":
        if a[1] != b[1]:
            return "wrong_shape"
        if a[2] != b[2]:
            return "wrong_kind"
        return "wrong_dtype"
    if a[0] in ("none", "other"):
        return "wrong_structure"
    ca, cb = a[1], b[1]
    if len(ca) != len(cb):
        return "wrong_structure"
    for x, y in zip(ca, cb):
        if a[0] == "dict":
            if x[0] != y[0]:
                return "wrong_structure"
            d = sdesc_diff(x[1], y[1])
        else:
            d = sdesc_diff(x, y)
        if d:
            return d
    return "wrong_structure"


def leaves(v):
    """Depth-first leaves (dict keys sorted by repr)."""
    if isinstance(v, dict):
        out = []
        for k in sorted(v, key=repr):
            out.extend(leaves(v[k]))
        return out
    if isinstance(v, (tuple, list)):
        out = []
        for t in v:
            out.extend(leaves(t))
        return out
    return [v]


def realify(v):
    parts = []
    for l in leaves(v):
        a = onp.asarray(l)
        if a.dtype.kind == "c":
            parts.append(a.real.astype(float).ravel())
            parts.append(a.imag.astype(float).ravel())
        elif a.dtype.kind in "fiub":
            parts.append(a.astype(float).ravel())
        else:
            raise TypeError("realify: leaf %r" % (type(l),))
    return onp.concatenate(parts) if parts else onp.zeros(0)


def unrealify(vec, like):
    pos = [0]

    def rec(t):
        if isinstance(t, dict):
            out = {}
            for k in sorted(t, key=repr):
                out[k] = rec(t[k])
            return {k: out[k] for k in t}
        if isinstance(t, tuple) and hasattr(t, "_fields"):
            return type(t)(*[rec(s) for s in t])
        if isinstance(t, tuple):
            return tuple(rec(s) for s in t)
        if isinstance(t, list):
            return [rec(s) for s in t]
        a = onp.asarray(t)
        n = a.size
        if a.dtype.kind == "c":
            re = vec[pos[0] : pos[0] + n]
            im = vec[pos[0] + n : pos[0] + 2 * n]
            pos[0] += 2 * n
            r = (re + 1j * im).reshape(a.shape)
            if isinstance(t, complex):
                return complex(r)
            if isinstance(t, onp.generic):
                return a.dtype.type(r)
            return r.astype(a.dtype)
        r = onp.array(vec[pos[0] : pos[0] + n], dtype=float).reshape(a.shape)
        pos[0] += n
        if isinstance(t, float):
            return float(r)
        if isinstance(t, onp.generic):
            return a.dtype.type(r)
        return r.astype(a.dtype if a.dtype.kind == "f" else float)

    out = rec(like)
    assert pos[0] == len(vec), (pos[0], len(vec))
    return out


def tree_map(f, v):
    if isinstance(v, dict):
        return {k: tree_map(f, t) for k, t in v.items()}
    if isinstance(v, tuple) and hasattr(v, "_fields"):
        return type(v)(*[tree_map(f, t) for t in v])
    if isinstance(v, tuple):
        return tuple(tree_map(f, t) for t in v)
    if isinstance(v, list):
        return [tree_map(f, t) for t in v]
    return f(v)


def conj_tree(v):
    return tree_map(lambda l: onp.conj(l) if onp.iscomplexobj(l) else l, v)


def rand_like(rng, like, scale=1.0):
    """Random generic value with the structure of `like` (complex leaves get generic complex values)."""

    def leaf(l):
        a = onp.asarray(l)
        if a.dtype.kind == "c":
            r = (rng.standard_normal(a.shape) + 1j * rng.standard_normal(a.shape)) * scale
            if isinstance(l, complex):
                return complex(r)
            return r.astype(a.dtype) if isinstance(l, onp.ndarray) else a.dtype.type(r)
        r = rng.standard_normal(a.shape) * scale
        if isinstance(l, float):
            return float(r)
        if a.dtype.kind != "f":
            return onp.asarray(r)
        return r.astype(a.dtype) if isinstance(l, onp.ndarray) else a.dtype.type(r)

    return tree_map(leaf, like)


def is_float_valued(v):
    ls = leaves(v)
    return len(ls) > 0 and all(onp.asarray(l).dtype.kind in "fc" for l in ls)


def all_finite(v):
    return all(onp.all(onp.isfinite(onp.asarray(l))) for l in leaves(v))


# ----------------------------------------------------------------------------------------------
# Sanitizers
# ----------------------------------------------------------------------------------------------


def deep_copy(v):
    return tree_map(lambda l: l.copy() if isinstance(l, onp.ndarray) else l, v)


def freeze(v):
    def f(l):
        if isinstance(l, onp.ndarray):
            l.flags.writeable = False
        return l

    return tree_map(f, v)


def unfreeze_copy(v):
    return tree_map(lambda l: onp.array(l) if isinstance(l, onp.ndarray) else l, v)


def vhash(v):
    h = hashlib.sha1()

    def rec(t):
        if isinstance(t, dict):
            h.update(b"d")
            for k in sorted(t, key=repr):
                h.update(repr(k).encode())
                rec(t[k])
        elif isinstance(t, (tuple, list)):
            h.update(b"t" if isinstance(t, tuple) else b"l")
            for s in t:
                rec(s)
            h.update(b")")
        elif isinstance(t, (onp.ndarray, onp.generic)):
            a = onp.asarray(t)
            h.update(str(a.dtype).encode() + str(a.shape).encode())
            if a.dtype.name in ("float128", "complex256", "longdouble", "clongdouble") or a.dtype.itemsize in (16, 32) and a.dtype.kind in "fc" and a.dtype.name not in ("complex128",):
                # extended precision carries uninitialised padding bytes: hash the values, not the bytes
                h.update(repr(a.ravel().tolist()).encode())
            else:
                h.update(onp.ascontiguousarray(a).tobytes())
        else:
            h.update(repr((type(t).__name__, t)).encode())

    rec(v)
    return h.hexdigest()


def bits_equal(a, b):
    """Bitwise equality incl. structure and dtype; python float ~ np.float64 scalar ~ 0-d array allowed
    only when explicitly normalised by the caller."""
    if type(a) is not type(b):
        if isinstance(a, (onp.ndarray, onp.generic, float, complex, int)) and isinstance(b, (onp.ndarray, onp.generic, float, complex, int)):
            pass
        else:
            return False
    if isinstance(a, dict):
        return set(a) == set(b) and all(bits_equal(a[k], b[k]) for k in a)
    if isinstance(a, (tuple, list)):
        return len(a) == len(b) and all(bits_equal(x, y) for x, y in zip(a, b))
    try:
        x, y = onp.asarray(a), onp.asarray(b)
    except Exception:
        return a == b
    if x.dtype == object or y.dtype == object:
        return False
    return x.dtype == y.dtype and x.shape == y.shape and onp.ascontiguousarray(x).tobytes() == onp.ascontiguousarray(y).tobytes()


def values_equal_nan(a, b):
    """Equality of structure/dtype/shape with NaN == NaN and -0.0 == 0.0 distinguished only by value."""
    if isinstance(a, dict):
        return isinstance(b, dict) and set(a) == set(b) and all(values_equal_nan(a[k], b[k]) for k in a)
    if isinstance(a, (tuple, list)):
        return type(a) is type(b) and len(a) == len(b) and all(values_equal_nan(x, y) for x, y in zip(a, b))
    x, y = onp.asarray(a), onp.asarray(b)
    if x.dtype == object or y.dtype == object:
        return False
    return x.dtype == y.dtype and x.shape == y.shape and bool(onp.array_equal(x, y, equal_nan=x.dtype.kind in "fc"))


def find_boxes(v, _depth=0):
    """Deep scan for tracer objects in a returned value. Returns list of paths."""
    setup_repo()
    from autograd.tracer import isbox

    out = []

    def rec(t, path, depth):
        if depth > 8:
            return
        if isbox(t):
            out.append(path or "<root>")
            return
        if isinstance(t, dict):
            for k, s in t.items():
                rec(k, path + ".key", depth + 1)
                rec(s, path + "[%r]" % (k,), depth + 1)
        elif isinstance(t, (tuple, list)):
            for i, s in enumerate(t):
                rec(s, path + "[%d]" % i, depth + 1)
        elif isinstance(t, onp.ndarray) and t.dtype == object:
            for i, s in enumerate(t.ravel()):
                rec(s, path + "{%d}" % i, depth + 1)

    rec(v, "", 0)
    return out


# ----------------------------------------------------------------------------------------------
# Finite-difference oracle (O-fd) on plain NumPy functions
# ----------------------------------------------------------------------------------------------


class FDResult:
    __slots__ = ("val", "err", "ok", "why")

    def __init__(self, val, err, ok, why=""):
        self.val, self.err, self.ok, self.why = val, err, ok, why


def fd_directional(F, x, v, h0=1e-3, accept=1e-8):
    """Richardson-extrapolated central difference of F: R^n -> R^m along v at x.
    Returns FDResult(val, err_estimate, ok). ok=False => irregular / not self-consistent."""
    x = onp.asarray(x, dtype=float)
    v = onp.asarray(v, dtype=float)
    vn = float(onp.max(onp.abs(v))) if v.size else 0.0
    if vn == 0.0:
        y = onp.asarray(F(x), dtype=float)
        return FDResult(onp.zeros_like(y), 0.0, True)
    h = h0 * max(1.0, float(onp.max(onp.abs(x))) if x.size else 1.0) / max(1.0, vn)
    try:
        with onp.errstate(all="ignore"):
            D = []
            for s in (h, h / 2, h / 4):
                fp = onp.asarray(F(x + s * v), dtype=float)
                fm = onp.asarray(F(x - s * v), dtype=float)
                if fp.shape != fm.shape:
                    return FDResult(None, onp.inf, False, "shape_changes")
                D.append((fp - fm) / (2 * s))
    except Exception as e:
        return FDResult(None, onp.inf, False, "fd_raised:" + type(e).__name__)
    # continuity at the point itself: the central stencil never evaluates F(x); a function that jumps exactly at x
    # (eigenvalues returned in another ORDER for every perturbed matrix, a branch taken only at the exact point)
    # has a perfectly consistent stencil that belongs to another branch than F(x)
    try:
        with onp.errstate(all="ignore"):
            f0 = onp.asarray(F(x), dtype=float)
        if f0.shape != fp.shape:
            return FDResult(None, onp.inf, False, "shape_changes")
        mid = 0.5 * (fp + fm)  # from the smallest step
        if onp.all(onp.isfinite(f0)) and f0.size and float(onp.max(onp.abs(mid - f0))) > 1e-3 * (1.0 + float(onp.max(onp.abs(f0)))):
            return FDResult(None, onp.inf, False, "discontinuous_at_point")
    except Exception as e:
        return FDResult(None, onp.inf, False, "fd_raised:" + type(e).__name__)
    R1 = (4 * D[1] - D[0]) / 3
    R2 = (4 * D[2] - D[1]) / 3
    val = (16 * R2 - R1) / 15
    if not onp.all(onp.isfinite(val)):
        return FDResult(val, onp.inf, False, "nonfinite")
    err = float(onp.max(onp.abs(R2 - R1))) if val.size else 0.0
    scale = 1.0 + (float(onp.max(onp.abs(val))) if val.size else 0.0)
    return FDResult(val, err, err <= accept * scale, "" if err <= accept * scale else "inconsistent")


def fd_onesided(F, x, v, sign, h0=1e-3):
    """One-sided Richardson derivative (for kink points). sign=+1 gives D+_v, sign=-1 gives D-_v
    (both expressed as derivative along +v)."""
    x = onp.asarray(x, dtype=float)
    v = onp.asarray(v, dtype=float)
    vn = max(1.0, float(onp.max(onp.abs(v))) if v.size else 1.0)
    h = h0 * max(1.0, float(onp.max(onp.abs(x))) if x.size else 1.0) / vn
    with onp.errstate(all="ignore"):
        f0 = onp.asarray(F(x), dtype=float)
        A = []
        for s in (h, h / 2, h / 4, h / 8):
            fs = onp.asarray(F(x + sign * s * v), dtype=float)
            A.append((fs - f0) / (sign * s))
    # Richardson for forward differences: error O(h) -> O(h^2) -> O(h^3)
    B = [2 * A[i + 1] - A[i] for i in range(3)]
    C = [(4 * B[i + 1] - B[i]) / 3 for i in range(2)]
    val = (8 * C[1] - C[0]) / 7
    err = float(onp.max(onp.abs(C[1] - C[0]))) if val.size else 0.0
    return val, err


def pair(a, b):
    """Real inner product of two realified vectors."""
    return float(onp.dot(onp.asarray(a, dtype=float), onp.asarray(b, dtype=float)))


def sig_key(sig):
    return json.dumps(sig, sort_keys=True, separators=(",", ":"))
