"""Engine `battery` (C15): unsupported requests fail loudly; no exported function silently drops dependence.

Every public callable of autograd.numpy / .linalg / .fft / .random (enumerated from the live module
dicts) and every ndarray attribute reachable on an ArrayBox is called through make_vjp and make_jvp
with each argument template NumPy accepts. Outcomes: raised (loud) / dependent derivative (judged with
the FD oracle like C01/C02) / independent result (-> local-variation test on raw NumPy)."""
import os
import subprocess
import sys
import time
import traceback
import warnings

import numpy as onp

from .. import common
from ..common import enc, find_boxes, is_float_valued, realify, sig_key, unrealify
from ..gen import catalogue
from . import prim as P

LEVEL = "exploration"
RULE = "Namespace battery: every public callable of autograd.numpy, .linalg, .fft, .random (live module dicts minus a printed denylist of I/O, printing, global-state setters and in-place mutators) x argument templates {f(x), f(x,y), f(y,x), f(x,x), f(x,2), f(x,axis=0), f(x,axis=-1), f(x,y^T), f(y,y2,x), f([conds],[choices],x)} x x in {vector, matrix, SPD matrix, 3-D} x {reverse, forward}; every ndarray attribute / operator on a tracer; the unsupported-option catalogue (guarded options of supported functions); loudness cases. A (callable, template) is non-trivial iff NumPy accepts the call; it is judged as: raised | dependent and FD-correct | independent and locally constant on NumPy. distinct = distinct (namespace, callable, template, x kind, mode, outcome class)."
ASSUMPTIONS = ["templates are generic; functions needing exotic argument shapes are reached only if a template fits (count reported)", "local variation is decided on raw NumPy at 3 directions x scales {1e-4, 1e-6}", "integer/boolean outputs are piecewise constant by type"]

DENY = {
    # I/O and persistence
    "save", "savez", "savez_compressed", "savetxt", "load", "loadtxt", "fromfile", "genfromtxt", "memmap", "fromregex", "frombuffer", "from_dlpack", "fromstring", "fromiter", "fromfunction", "DataSource", "open_memmap",
    # printing / configuration / introspection
    "set_printoptions", "printoptions", "info", "show_config", "show_runtime", "test", "lookfor", "source", "who", "array_repr", "array_str", "array2string", "get_printoptions", "get_include", "getbufsize", "geterr", "geterrcall", "format_float_positional", "format_float_scientific", "base_repr", "binary_repr", "typename", "mintypecode", "issubdtype", "isdtype", "iterable", "may_share_memory", "shares_memory", "byte_bounds", "deprecate", "deprecate_with_doc", "add_newdoc", "add_docstring", "add_newdoc_ufunc", "set_string_function", "disp", "safe_eval", "get_array_wrap", "can_cast", "promote_types", "min_scalar_type", "common_type", "find_common_type", "obj2sctype", "sctype2char", "maximum_sctype", "issctype", "issubsctype", "issubclass_", "asmatrix", "bmat", "mat", "matrix", "vectorize", "frompyfunc", "piecewise", "apply_along_axis", "apply_over_axes", "busday_count", "busday_offset", "is_busday", "datetime_as_string", "datetime_data", "einsum_path", "nested_iters", "nditer", "ndenumerate", "ndindex", "errstate", "broadcast", "finfo", "iinfo", "dtype", "ufunc", "poly1d", "recarray", "record", "chararray", "busdaycalendar", "flatiter", "format_parser", "astype",
    # global-state setters
    "seterr", "seterrcall", "setbufsize", "seed", "set_state", "get_state", "set_numeric_ops", "set_bit_generator", "get_bit_generator", "default_rng",
    # in-place mutators
    "put", "place", "putmask", "copyto", "put_along_axis", "fill_diagonal", "shuffle",
    # autograd internals exported in the namespace (not NumPy API)
    "primitive", "notrace_primitive", "wrap_namespace", "wrap_intdtype", "wrap_if_boxes_inside", "parse_einsum_input", "metadata", "concatenate_args", "array_from_args", "_array_from_scalar_or_array", "_astype", "_parse_einsum_input",
}

# decompositions whose vector outputs are only defined up to a gauge (sign/phase/order): their values are
# judged in the G-prim catalogue on gauge-safe inputs/selections, not by the generic battery templates
GAUGE = {"eig", "eigh", "svd", "qr"}

TEMPLATES = ["u", "b0", "b1", "bb", "k", "ax", "axn", "bT", "t2", "ll2"]
XKINDS = ["vec", "mat", "spd", "t3"]


def nshards(pid, tier):
    return 16


def _new_result():
    return {"evaluations": 0, "judged": {}, "violations": [], "not_judged": {}, "counters": {}, "sets": {}, "samples": [], "info": {}}


def make_x(rng, kind):
    if kind == "vec":
        return catalogue.sample(rng, (4,), "distinct") * 0.4 + 0.9
    if kind == "mat":
        return catalogue.sample(rng, (3, 4), "distinct") * 0.4 + 0.9
    if kind == "spd":
        m = rng.standard_normal((3, 3)) * 0.3
        return m @ m.T + onp.eye(3) * 1.5 + onp.diag([0.0, 0.4, 0.9])
    return catalogue.sample(rng, (2, 3, 3), "distinct") * 0.4 + 0.9


def template_args(t, x, y):
    """Returns (args, kwargs, argnum, dup)."""
    if t == "u":
        return [x], {}, 0, None
    if t == "b0":
        return [x, y], {}, 0, None
    if t == "b1":
        return [y, x], {}, 1, None
    if t == "bb":
        return [x], {}, 0, True
    if t == "k":
        return [x, 2], {}, 0, None
    if t == "ax":
        return [x], {"axis": 0}, 0, None
    if t == "axn":
        return [x], {"axis": -1}, 0, None
    if t == "bT":
        return [x, onp.swapaxes(y, -1, -2) if onp.ndim(y) >= 2 else y], {}, 0, None
    if t == "t2":
        # the differentiated array as THIRD positional argument (upper bounds, fall-back values, ...)
        return [y, y * 0.9 + 0.2, x], {}, 2, None
    if t == "ll2":
        # ... after a list of conditions and a list of choices (np.select's default)
        return [[y > 1.0, y < 0.8], [y, y * 0.5], x], {}, 2, None
    raise ValueError(t)


def namespaces():
    common.setup_repo()
    import autograd.numpy as anp
    import autograd.numpy.fft as afft
    import autograd.numpy.linalg as ala
    import autograd.numpy.random as arnd
    import numpy.fft
    import numpy.linalg
    import numpy.random

    return {"numpy": (anp, onp), "linalg": (ala, onp.linalg), "fft": (afft, onp.fft), "random": (arnd, onp.random)}


def enumerate_callables():
    out = []
    denied = []
    for ns, (amod, nmod) in namespaces().items():
        for name in sorted(amod.__dict__):
            if name.startswith("_"):
                continue
            obj = amod.__dict__[name]
            if not callable(obj) or isinstance(obj, type):
                continue
            if name in DENY:
                denied.append(ns + "." + name)
                continue
            raw = getattr(nmod, name, None)
            if raw is None:
                raw = getattr(obj, "fun", None)
            if raw is None or not callable(raw):
                # re-implemented wrappers (lambdas) without NumPy counterpart of the same name are rare
                continue
            out.append((ns, name))
    return out, denied


def varies_locally(ncall, x0, y0, rng, reseed):
    """Does the raw NumPy function vary with x at small scales? (decided on NumPy only)"""
    xf = realify(x0)
    y0f = realify(y0)
    for d in range(3):
        v = rng.standard_normal(xf.size)
        changed = []
        for h in (1e-4, 1e-6):
            try:
                reseed()
                with warnings.catch_warnings():
                    warnings.simplefilter("ignore")
                    with onp.errstate(all="ignore"):
                        y1 = ncall(unrealify(xf + h * v, x0))
                y1f = realify(y1)
            except Exception:
                changed.append(False)
                continue
            if y1f.shape != y0f.shape:
                changed.append(False)
                continue
            changed.append(bool(onp.any(onp.abs(y1f - y0f) > 1e-13 * (1 + onp.abs(y0f)) * 0 + 0) and onp.any(y1f != y0f)))
        if all(changed):
            return True
    return False


def run_callable(res, ns, name, rng, tier):
    from autograd.core import make_jvp, make_vjp

    for xk in XKINDS:
        x = make_x(rng, xk)
        y = make_x(rng, xk) * 0.9 + 0.05
        for t in TEMPLATES:
            args, kwargs, argnum, dup = template_args(t, x, y)
            case = {"prim": name, "ns": ns, "form": "function", "args": args, "kwargs": kwargs, "argnum": argnum, "point": "regular"}
            if dup:
                case["dup"] = True
            if ns == "linalg" and name == "cholesky":
                case["domain"] = "herm"  # reads one triangle; defined on symmetric matrices
            res["evaluations"] += 1
            if ns == "random":
                ncall, x0 = build_random(case, "np")
                acall, _ = build_random(case, "ag")
                reseed = lambda: onp.random.seed(1234)
            else:
                try:
                    ncall, x0 = P.build(case, "np")
                    acall, _ = P.build(case, "ag")
                except Exception:
                    res["not_judged"]["harness_build"] = res["not_judged"].get("harness_build", 0) + 1
                    continue
                reseed = lambda: None
            h_args = common.vhash(args)
            try:
                reseed()
                with warnings.catch_warnings():
                    warnings.simplefilter("ignore")
                    with onp.errstate(all="ignore"):
                        y0 = ncall(x0)
            except Exception:
                res["not_judged"]["numpy_rejects_config"] = res["not_judged"].get("numpy_rejects_config", 0) + 1
                continue
            if common.vhash(args) != h_args:
                # the template addresses an output/in-place parameter of the NumPy function (e.g. the second
                # positional argument of a unary ufunc is `out=`): not a differentiation request
                res["not_judged"]["mutating_template"] = res["not_judged"].get("mutating_template", 0) + 1
                x = make_x(rng, xk)
                y = make_x(rng, xk) * 0.9 + 0.05
                continue
            res["sets"].setdefault("callables_reached", set()).add(ns + "." + name)
            floaty = is_float_valued(y0) and realify(y0).size > 0
            for mode in ("rev", "fwd"):
                sig = {"engine": "battery", "ns": ns, "prim": name, "template": t, "x": xk, "mode": mode, "args": [P.classify(a) for a in args], "kw": {k: P.classify(v) for k, v in kwargs.items()}, "argnum": argnum, "form": "function", "point": "regular"}
                bcase = {"kind": "battery", "ns": ns, "name": name, "template": t, "x": xk, "mode": mode, "case": P.encode_case(case)}
                outcome = None
                with warnings.catch_warnings(record=True) as wlist:
                    warnings.simplefilter("always")
                    try:
                        reseed()
                        with onp.errstate(all="ignore"):
                            if mode == "rev":
                                vjp, val = make_vjp(acall, x0)
                                deriv = None
                            else:
                                val, deriv = make_jvp(acall, x0)(common.rand_like(rng, x0))
                        outcome = "returned"
                    except Exception as e:
                        outcome = "raised:" + type(e).__name__
                if outcome.startswith("raised"):
                    res["counters"]["loud"] = res["counters"].get("loud", 0) + 1
                    res["judged"][sig_key(dict(sig, outcome="raised"))] = 1
                    continue
                independent = any("Output seems independent" in str(w.message) for w in wlist)
                if find_boxes(val):
                    s = dict(sig, symptom="tracer_leak")
                    res["violations"].append({"sig": s, "case": bcase, "detail": "value returned from %s.%s under differentiation contains tracer objects (object array / container)" % (ns, name)})
                    continue
                if independent:
                    if not floaty:
                        res["counters"]["independent_nonfloat"] = res["counters"].get("independent_nonfloat", 0) + 1
                        res["judged"][sig_key(dict(sig, outcome="independent_nonfloat"))] = 1
                        continue
                    if varies_locally(ncall, x0, y0, rng, reseed):
                        s = dict(sig, symptom="silent_constant")
                        res["violations"].append({"sig": s, "case": bcase, "detail": "%s.%s(%s) returned a result treated as independent of the differentiated argument, but the NumPy function varies locally with it" % (ns, name, t)})
                        continue
                    res["counters"]["independent_constant"] = res["counters"].get("independent_constant", 0) + 1
                    res["judged"][sig_key(dict(sig, outcome="independent_constant"))] = 1
                    continue
                # dependent: the derivative must be right (same evaluator as C01/C02)
                if ns == "random" or not floaty or (ns == "linalg" and name in GAUGE):
                    res["judged"][sig_key(dict(sig, outcome="dependent_unjudged"))] = 1
                    continue
                try:
                    o = P.evaluate(case, mode, rng, "quick")
                except Exception:
                    res["not_judged"]["harness_error"] = res["not_judged"].get("harness_error", 0) + 1
                    res["sets"].setdefault("harness_errors", set()).add(traceback.format_exc()[-300:])
                    continue
                if o.status == "violation":
                    s = dict(sig, symptom=o.symptom)
                    res["violations"].append({"sig": s, "case": bcase, "detail": o.detail})
                elif o.status == "ok":
                    res["counters"]["dependent_correct"] = res["counters"].get("dependent_correct", 0) + 1
                    res["judged"][sig_key(dict(sig, outcome="dependent_correct"))] = 1
                else:
                    res["not_judged"][o.reason or "?"] = res["not_judged"].get(o.reason or "?", 0) + 1
            if res["evaluations"] % 900 == 1:
                res["samples"].append({"callable": ns + "." + name, "template": t, "x": xk, "numpy_output": common.brief(y0, 100)})


def build_random(case, which):
    mods = namespaces()["random"]
    mod = mods[0] if which == "ag" else mods[1]
    f = getattr(mod, case["prim"])
    args, kwargs, argnum = case["args"], case["kwargs"], case["argnum"]
    dup = case.get("dup")

    def call(x):
        onp.random.seed(1234)
        a = list(args)
        if dup:
            a = [x, x]
        else:
            a[argnum] = x
        return f(*a, **kwargs)

    return call, args[argnum]


# ---------------------------------------------------------------- ArrayBox attributes / operators


def run_box_attributes(res, rng):
    import operator as op

    from autograd.core import make_jvp, make_vjp

    x = make_x(rng, "mat")
    y = make_x(rng, "mat") * 0.9 + 0.05
    names = sorted(n for n in dir(onp.ndarray) if not n.startswith("_"))
    res["info"]["ndarray_attributes"] = len(names)
    inplace = {"sort", "partition", "fill", "resize", "setflags", "setfield", "itemset", "put", "byteswap", "tofile", "dump", "dumps", "tobytes", "tolist", "item", "view", "getfield", "to_device"}
    templates = {"m0": lambda o, n: getattr(o, n)(), "m_k": lambda o, n: getattr(o, n)(2), "m_ax": lambda o, n: getattr(o, n)(axis=0), "m_y": lambda o, n: getattr(o, n)(y[: o.shape[0]] if hasattr(o, "shape") else y), "attr": lambda o, n: getattr(o, n)}
    for name in names:
        for tn, tf in templates.items():
            if name in inplace and tn != "attr":
                continue
            res["evaluations"] += 1
            ncall = lambda v: tf(v, name)
            try:
                with warnings.catch_warnings():
                    warnings.simplefilter("ignore")
                    y0 = ncall(x.copy())
                if callable(y0):
                    continue
            except Exception:
                res["not_judged"]["numpy_rejects_config"] = res["not_judged"].get("numpy_rejects_config", 0) + 1
                continue
            floaty = not callable(y0) and is_float_valued(y0) and realify(y0).size > 0 if isinstance(y0, (onp.ndarray, onp.generic, float, complex, tuple, list)) else False
            for mode in ("rev", "fwd"):
                sig = {"engine": "battery", "ns": "boxes", "prim": name, "template": tn, "mode": mode}
                bcase = {"kind": "box", "name": name, "template": tn, "mode": mode}
                with warnings.catch_warnings(record=True) as wlist:
                    warnings.simplefilter("always")
                    try:
                        captured = []

                        def fn(v):
                            r = tf(v, name)
                            captured.append(r)
                            return r

                        if mode == "rev":
                            vjp, val = make_vjp(fn, x.copy())
                        else:
                            val, dv = make_jvp(fn, x.copy())(onp.ones_like(x))
                        outcome = "returned"
                    except Exception as e:
                        outcome = "raised:" + type(e).__name__
                if outcome != "returned":
                    res["counters"]["loud"] = res["counters"].get("loud", 0) + 1
                    res["judged"][sig_key(dict(sig, outcome="raised"))] = 1
                    continue
                independent = any("Output seems independent" in str(w.message) for w in wlist)
                if find_boxes(val):
                    res["violations"].append({"sig": dict(sig, symptom="tracer_leak"), "case": bcase, "detail": "x.%s leaks a tracer" % name})
                    continue
                if independent and floaty and varies_locally(ncall, x, y0, rng, lambda: None):
                    res["violations"].append({"sig": dict(sig, symptom="silent_constant"), "case": bcase, "detail": "ndarray attribute %s (%s) on a tracer returns a constant although it varies with the array" % (name, tn)})
                    continue
                if not independent and floaty:
                    # dependent: check against FD through the generic evaluator
                    case = {"prim": name, "ns": "numpy", "form": "method" if tn != "attr" else "property", "args": [x] + ([2] if tn == "m_k" else []) + ([y] if tn == "m_y" else []), "kwargs": {"axis": 0} if tn == "m_ax" else {}, "argnum": 0, "point": "regular"}
                    try:
                        o = P.evaluate(case, mode, rng, "quick")
                        if o.status == "violation":
                            s = dict(sig, symptom=o.symptom, form=case["form"], args=[P.classify(a) for a in case["args"]], kw={k: P.classify(v) for k, v in case["kwargs"].items()}, argnum=0, point="regular")
                            res["violations"].append({"sig": s, "case": {"kind": "battery", "case": P.encode_case(case), "mode": mode}, "detail": o.detail})
                            continue
                    except Exception:
                        pass
                res["judged"][sig_key(dict(sig, outcome="independent" if independent else "dependent"))] = 1
    # operators
    binops = {"add": op.add, "sub": op.sub, "mul": op.mul, "truediv": op.truediv, "pow": op.pow, "mod": op.mod, "matmul": lambda a, b: op.matmul(a, onp.swapaxes(b, -1, -2)) if not hasattr(b, "_value") else op.matmul(a, b.T), "floordiv": op.floordiv, "lshift": op.lshift, "and": op.and_, "or": op.or_, "xor": op.xor, "divmod": divmod, "lt": op.lt, "le": op.le, "gt": op.gt, "ge": op.ge, "eq": op.eq, "ne": op.ne}
    unops = {"neg": op.neg, "pos": op.pos, "abs": abs, "invert": op.invert, "float": float, "int": int, "complex": complex, "bool": bool, "len": len, "iter": lambda a: [e for e in a][0], "round": round, "hash": hash, "index": lambda a: [1, 2, 3][a]}
    for name, f in list(binops.items()) + [("r" + k, (lambda g: (lambda a, b: g(b, a)))(v)) for k, v in binops.items()]:
        for yv in (y, 2.0, 2):
            res["evaluations"] += 1
            sig = {"engine": "battery", "ns": "operators", "prim": name, "other": P.classify(yv)}
            bcase = {"kind": "operator", "name": name, "other": P.classify(yv)}
            try:
                with warnings.catch_warnings():
                    warnings.simplefilter("ignore")
                    y0 = f(x, yv)
            except Exception:
                res["not_judged"]["numpy_rejects_config"] = res["not_judged"].get("numpy_rejects_config", 0) + 1
                continue
            floaty = is_float_valued(y0)
            for mode in ("rev", "fwd"):
                with warnings.catch_warnings(record=True) as wlist:
                    warnings.simplefilter("always")
                    try:
                        if mode == "rev":
                            vjp, val = make_vjp(lambda v: f(v, yv), x)
                        else:
                            val, dv = make_jvp(lambda v: f(v, yv), x)(onp.ones_like(x))
                        outcome = "returned"
                    except Exception as e:
                        outcome = "raised"
                if outcome == "raised":
                    res["counters"]["loud"] = res["counters"].get("loud", 0) + 1
                    res["judged"][sig_key(dict(sig, mode=mode, outcome="raised"))] = 1
                    continue
                independent = any("Output seems independent" in str(w.message) for w in wlist)
                if find_boxes(val):
                    res["violations"].append({"sig": dict(sig, mode=mode, symptom="tracer_leak"), "case": bcase, "detail": "operator %s leaks a tracer" % name})
                    continue
                if independent and floaty and varies_locally(lambda v: f(v, yv), x, y0, rng, lambda: None):
                    res["violations"].append({"sig": dict(sig, mode=mode, symptom="silent_constant"), "case": bcase, "detail": "operator %s on a tracer silently yields a constant" % name})
                    continue
                res["judged"][sig_key(dict(sig, mode=mode, outcome="independent" if independent else "dependent"))] = 1
    for name, f in unops.items():
        for xv in (x, onp.array(1.5), 1.5, onp.array([1.5])):
            res["evaluations"] += 1
            sig = {"engine": "battery", "ns": "operators", "prim": name, "x": P.classify(xv)}
            bcase = {"kind": "operator", "name": name, "x": P.classify(xv)}
            try:
                y0 = f(xv)
            except Exception:
                continue
            with warnings.catch_warnings(record=True) as wlist:
                warnings.simplefilter("always")
                try:
                    vjp, val = make_vjp(lambda v: f(v), xv)
                    outcome = "returned"
                except Exception:
                    outcome = "raised"
            if outcome == "raised":
                res["judged"][sig_key(dict(sig, outcome="raised"))] = 1
                continue
            independent = any("Output seems independent" in str(w.message) for w in wlist)
            if find_boxes(val):
                res["violations"].append({"sig": dict(sig, symptom="tracer_leak"), "case": bcase, "detail": "%s(x) leaks a tracer" % name})
                continue
            if independent and isinstance(y0, (float, complex)) and name in ("float", "complex"):
                # float(tracer) silently drops the dependence: the value varies with x
                res["violations"].append({"sig": dict(sig, symptom="silent_constant"), "case": bcase, "detail": "%s(tracer) returned a plain number; dependence dropped silently" % name})
                continue
            res["judged"][sig_key(dict(sig, outcome="independent" if independent else "dependent"))] = 1


# ---------------------------------------------------------------- unsupported-option catalogue + loudness


OPTION_TAGS = {"guarded", "unsupported_mode", "option", "multid", "repeated_axes", "with_s", "odd_length", "no_sublistout", "full_matrices_true", "full_matrices_default", "array_repeats", "array_fill", "array_endpoints", "n_exceeds", "short", "default_mode", "positional_n", "nonsquare", "array_bound", "directive"}


def run_option_catalogue(res, seed, idx, n, tier):
    rng0 = onp.random.Generator(onp.random.PCG64([seed, 91]))
    cases = [c for c in catalogue.all_cases(rng0, cx=False) if set(c.get("tags") or []) & OPTION_TAGS or (c["ns"] == "linalg" and c["prim"] == "norm")]
    cases = [c for c in cases if c.get("argnum") is not None]
    res["info"]["option_cases"] = len(cases)
    for i in range(idx, len(cases), n):
        c = cases[i]
        for mode in ("rev", "fwd"):
            res["evaluations"] += 1
            rng = onp.random.Generator(onp.random.PCG64([seed, i, 93]))
            try:
                o = P.evaluate(c, mode, rng, tier)
            except Exception:
                res["not_judged"]["harness_error"] = res["not_judged"].get("harness_error", 0) + 1
                res["sets"].setdefault("harness_errors", set()).add(traceback.format_exc()[-300:])
                continue
            sig = P.signature(c, mode)
            sig["engine"] = "battery"
            sig["family"] = "option"
            if o.status == "violation":
                sig["symptom"] = o.symptom
                res["violations"].append({"sig": sig, "case": {"kind": "option", "mode": mode, "case": P.encode_case(c)}, "detail": o.detail})
            elif o.status == "ok":
                res["judged"][sig_key(dict(sig, outcome="correct"))] = 1
                res["counters"]["option_correct"] = res["counters"].get("option_correct", 0) + 1
            elif (o.reason or "").startswith("raised:"):
                res["judged"][sig_key(dict(sig, outcome="raised"))] = 1
                res["counters"]["option_loud"] = res["counters"].get("option_loud", 0) + 1
                res["sets"].setdefault("option_raises", set()).add("%s %s: %s" % (c["prim"], sorted(c.get("tags") or []), o.reason[7:]))
            else:
                res["not_judged"][o.reason or "?"] = res["not_judged"].get(o.reason or "?", 0) + 1


def loudness_cases():
    import autograd.numpy as anp
    from autograd import elementwise_grad, grad, holomorphic_grad, jacobian, value_and_grad
    from autograd.core import make_jvp, make_vjp
    from autograd.extend import defjvp, defvjp, primitive

    x = onp.array([0.5, 1.5, -0.7])
    p_norule = primitive(lambda a: a * 2.0)
    p_arg0 = primitive(lambda a, b: a * b)
    defvjp(p_arg0, lambda ans, a, b: lambda g: g * b)
    defjvp(p_arg0, lambda g, ans, a, b: g * b)
    p3 = primitive(lambda a, b, c: a * b * c)
    defvjp(p3, lambda ans, a, b, c: lambda g: g * b * c, None)

    def setitem(v):
        v[0] = 2.0
        return anp.sum(v)

    def setitem_slice(v):
        v[1:] = anp.zeros(2)
        return anp.sum(v)

    def aug_elem(v):
        v[0] += 1.0
        return anp.sum(v)

    def aug_elem_mul(v):
        v[0] *= 2.0
        return anp.sum(v)

    def setitem_into_const(v):
        a = onp.zeros(3)
        a[0] = v[0]
        return anp.sum(a) + anp.sum(v)

    cases = {
        "setitem": lambda: grad(setitem)(x.copy()),
        "setitem_slice": lambda: grad(setitem_slice)(x.copy()),
        "augassign_element": lambda: grad(aug_elem)(x.copy()),
        "augassign_element_mul": lambda: grad(aug_elem_mul)(x.copy()),
        "setitem_fwd": lambda: make_jvp(setitem, x.copy())(onp.ones(3)),
        "tracer_into_plain_array": lambda: grad(setitem_into_const)(x.copy()),
        "wrt_str": lambda: grad(lambda s: 1.0)("abc"),
        "wrt_none": lambda: grad(lambda s: 1.0)(None),
        "wrt_int": lambda: grad(lambda s: s * 2.0)(3),
        "wrt_bool": lambda: grad(lambda s: s * 2.0)(True),
        "wrt_object": lambda: grad(lambda s: 1.0)(object()),
        "wrt_set": lambda: grad(lambda s: 1.0)({1.0, 2.0}),
        "wrt_list_with_str": lambda: grad(lambda s: s[0] * 2.0)([1.0, "a"]),
        "wrt_dict_with_none": lambda: grad(lambda s: s["a"] * 2.0)({"a": 1.0, "b": None}),
        "wrt_str_fwd": lambda: make_jvp(lambda s: 1.0, "abc")(1.0),
        "grad_vector_output": lambda: grad(lambda v: v * 2.0)(x),
        "grad_matrix_output": lambda: grad(lambda v: anp.outer(v, v))(x),
        "grad_tuple_output": lambda: grad(lambda v: (anp.sum(v), anp.sum(v)))(x),
        "grad_complex_output": lambda: grad(lambda v: anp.sum(v) * (1.0 + 2.0j))(x),
        # complex outputs of every precision and container flavour
        "grad_complex64_array_output": lambda: grad(lambda v: (anp.sum(v) * onp.ones(1, dtype=onp.complex64)))(x),
        "grad_complex64_scalar_output": lambda: grad(lambda v: anp.sum(v) * onp.complex64(1.0 + 2.0j))(x),
        "grad_clongdouble_output": lambda: grad(lambda v: anp.sum(v) * onp.ones((), dtype=onp.clongdouble))(x),
        "grad_complex64_0d_output": lambda: grad(lambda v: anp.sum(v.astype(onp.complex64) * onp.complex64(1j)))(x),
        "value_and_grad_complex64_output": lambda: value_and_grad(lambda v: anp.sum(v) * onp.ones(1, dtype=onp.complex64))(x),
        "elementwise_grad_complex64_output": lambda: elementwise_grad(lambda v: v * onp.ones(3, dtype=onp.complex64) * onp.complex64(1j))(x),
        "elementwise_grad_clongdouble_output": lambda: elementwise_grad(lambda v: v * onp.ones(3, dtype=onp.clongdouble))(x),
        "value_and_grad_vector_output": lambda: value_and_grad(lambda v: v * 2.0)(x),
        "value_and_grad_complex_output": lambda: value_and_grad(lambda v: anp.sum(v) * 1j)(x),
        "elementwise_grad_complex_output": lambda: elementwise_grad(lambda v: v * (1.0 + 1.0j))(x),
        "no_rule_rev": lambda: grad(lambda v: anp.sum(p_norule(v)))(x),
        "no_rule_fwd": lambda: make_jvp(lambda v: p_norule(v), x)(onp.ones(3)),
        "no_rule_for_argnum_rev": lambda: grad(lambda v: anp.sum(p_arg0(x, v)))(x),
        "no_rule_for_argnum_fwd": lambda: make_jvp(lambda v: p_arg0(x, v), x)(onp.ones(3)),
        "no_rule_for_argnum_two_args": lambda: grad(lambda v: anp.sum(p_arg0(v, v)))(x),
        "no_rule_third_arg_of_three": lambda: grad(lambda v: anp.sum(p3(v, v, v)))(x),
        "unknown_attribute": lambda: grad(lambda v: anp.sum(v.nonexistent_attribute))(x),
        "unknown_method_tolist": lambda: grad(lambda v: anp.sum(anp.array(v.tolist())))(x),
        "unknown_method_item": lambda: grad(lambda v: v.item(0) * 2.0)(x),
        "unknown_method_copy": lambda: grad(lambda v: anp.sum(v.copy()))(x),
        "unknown_method_dot": lambda: grad(lambda v: v.dot(v))(x),
        "inplace_sort_method": lambda: grad(lambda v: (v.sort(), anp.sum(v))[1])(x.copy()),
        "jacobian_wrt_tuple": lambda: jacobian(lambda t: t[0] * 2.0)((x, x)),
        "jacobian_wrt_dict": lambda: jacobian(lambda t: t["a"] * 2.0)({"a": x}),
        "np_float_on_tracer_array": lambda: grad(lambda v: float(v[0] * 2.0))(x),
    }
    return cases


def run_loudness(res):
    for name, thunk in loudness_cases().items():
        res["evaluations"] += 1
        sig = {"engine": "battery", "family": "loudness", "case": name}
        try:
            with warnings.catch_warnings():
                warnings.simplefilter("ignore")
                r = thunk()
            res["violations"].append({"sig": dict(sig, symptom="not_loud"), "case": {"kind": "loudness", "name": name}, "detail": "unsupported request %s returned %s instead of raising" % (name, common.brief(r, 120) if not callable(r) else repr(r))})
        except Exception as e:
            res["judged"][sig_key(sig)] = 1
            res["sets"].setdefault("loudness_exceptions", set()).add("%s: %s" % (name, type(e).__name__))


def protocol_programs():
    """Plain-Python idioms applied to a traced 1-D array (and to containers of traced values): builtins that
    iterate / index / compare / copy. Each either propagates the derivative exactly or raises."""
    import copy
    import functools
    import math
    import operator

    import autograd.numpy as anp  # noqa: F401 (xp is passed in)

    P_ = {
        "builtin_sum": lambda xp, a: sum(a) * a[0],
        "builtin_max_min": lambda xp, a: max(a) * min(a),
        "sorted": lambda xp, a: sorted(a)[1] * a[0],
        "star_unpack": lambda xp, a: (lambda p, q, r: p * q + r)(*a),
        "reduce_mul": lambda xp, a: functools.reduce(operator.mul, a),
        "math_prod": lambda xp, a: math.prod(a),
        "enumerate": lambda xp, a: sum(i * v * v for i, v in enumerate(a)),
        "listcomp_array": lambda xp, a: xp.sum(xp.array([v**2 for v in a])),
        "zip_reversed": lambda xp, a: sum(p * q for p, q in zip(a, a[::-1])),
        "reversed": lambda xp, a: list(reversed(a))[0] * a[1],
        "copy_copy": lambda xp, a: xp.sum(copy.copy(a) ** 2),
        "deepcopy": lambda xp, a: xp.sum(copy.deepcopy(a) ** 2),
        "deepcopy_and_original": lambda xp, a: xp.sum(copy.deepcopy(a) * a),
        "deepcopy_of_dict": lambda xp, a: (lambda d: d["w"][0] * a[1] + d["b"])(copy.deepcopy({"w": a * 2.0, "b": a[2]})),
        "deepcopy_element": lambda xp, a: copy.deepcopy(a[0]) * a[0] * a[1],
        "copy_of_list": lambda xp, a: (lambda l: l[0] * l[1] * a[2])(copy.copy([a[0], a[1]])),
        "builtin_abs": lambda xp, a: xp.sum(abs(a)),
        "builtin_pow": lambda xp, a: xp.sum(pow(a, 3)),
        "dict_values_sum": lambda xp, a: sum({"p": a[0], "q": a[1] * a[2]}.values()),
        "tolist": lambda xp, a: a.tolist()[0] * a[1],
        "item": lambda xp, a: a[0].item() * a[1],
        "float_of_element": lambda xp, a: float(a[0]) * a[1],
        "npfloat_of_element": lambda xp, a: onp.float64(a[0]) * a[1],
        # the scalar types the wrapped namespace exports, applied to a traced value (a cast inside the function)
        "xp_float64_of_element": lambda xp, a: xp.float64(a[0]) * a[1],
        "xp_float32_of_element": lambda xp, a: xp.float32(a[0]) * 1.0 * a[1],
        "xp_double_of_element": lambda xp, a: xp.double(a[0]) * a[1],
        "xp_float64_of_array": lambda xp, a: xp.sum(xp.float64(a) * a),
        "xp_complex128_of_element": lambda xp, a: xp.real(xp.complex128(a[0]) * a[1]),
        "xp_int64_of_element": lambda xp, a: xp.int64(a[0] * 10.0) * a[1],
        "xp_bool_of_element": lambda xp, a: xp.bool_(a[0]) * a[1],
        "builtin_float_of_sum": lambda xp, a: float(xp.sum(a)) * a[1],
        "builtin_int_of_element": lambda xp, a: int(a[2]) * a[1],
        "builtin_complex_of_element": lambda xp, a: complex(a[0]).real * a[1],
        "math_exp_of_element": lambda xp, a: __import__("math").exp(a[0]) * a[1],
        "percent_format": lambda xp, a: float("%.17g" % a[0]) * a[1],
        "buffer_fill_loop": lambda xp, a: (lambda out: ([out.__setitem__(i, a[i] * a[i]) for i in range(3)], xp.sum(out))[1])(onp.zeros(3)),
        "buffer_slice_assign": lambda xp, a: (lambda out: (out.__setitem__(slice(1, 4), a * a), xp.sum(out))[1])(onp.zeros(5)),
        "onp_asarray": lambda xp, a: xp.sum(onp.asarray(a) * a),
        "fstring_roundtrip": lambda xp, a: float("%r" % (a[0],)) * a[1] if not hasattr(a[0], "_value") else float(str(a[0])) * a[1],
        "iterate_rows": lambda xp, a: sum(xp.sum(r) * k for k, r in enumerate(xp.reshape(xp.concatenate([a, a * a]), (2, 3)))),
        "conditional_expr": lambda xp, a: (a[0] if a[1] < 0 else a[2]) * a[1],
        "tuple_compare_len": lambda xp, a: a[0] * a[1] if len(a) == 3 and a.shape == (3,) else 0.0 * a[0],
        "slice_then_unpack": lambda xp, a: (lambda p, q: p * p * q)(*a[1:]),
        "pickle_roundtrip": lambda xp, a: xp.sum(__import__("pickle").loads(__import__("pickle").dumps(a)) ** 2),
        "operator_itemgetter": lambda xp, a: operator.itemgetter(2, 0)(a)[0] * a[1],
        "map_lambda": lambda xp, a: sum(map(lambda v: v * v * v, a)),
        "divmod": lambda xp, a: divmod(a, 0.7)[1][0] * a[1],
        # NumPy procedures that return None and write a traced value into a plain buffer
        "copyto_plain_buffer": lambda xp, a: (lambda buf: (xp.copyto(buf, a), xp.sum(buf * buf))[1])(onp.zeros(3)),
        "put_plain_buffer": lambda xp, a: (lambda buf: (xp.put(buf, [0, 1, 2], a), xp.sum(buf * buf))[1])(onp.zeros(3)),
        "fill_diagonal_plain_buffer": lambda xp, a: (lambda buf: (xp.fill_diagonal(buf, a), xp.sum(buf * buf))[1])(onp.zeros((3, 3))),
        "place_plain_buffer": lambda xp, a: (lambda buf: (xp.place(buf, onp.ones(3, dtype=bool), a), xp.sum(buf * buf))[1])(onp.zeros(3)),
        "putmask_plain_buffer": lambda xp, a: (lambda buf: (xp.putmask(buf, onp.ones(3, dtype=bool), a), xp.sum(buf * buf))[1])(onp.zeros(3)),
        "put_along_axis_plain_buffer": lambda xp, a: (lambda buf: (xp.put_along_axis(buf, onp.array([[0], [1], [2]]), xp.reshape(a, (3, 1)), 1), xp.sum(buf * buf))[1])(onp.zeros((3, 2))),
        # out=: the RETURNED value carries the derivative (the caller's buffer is a plain array by construction;
        # reading it back instead of the result is outside what the property states)
        "out_keyword_returned_value": lambda xp, a: (lambda buf: xp.sum(xp.multiply(a, a, out=buf) * a))(onp.zeros(3)),
        "out_keyword_sum_returned_value": lambda xp, a: (lambda buf: xp.sum(a * a, out=buf) * a[0])(onp.zeros(())),
        # results of linalg functions read by field name
        "eigh_field_eigenvalues": lambda xp, a: xp.sum(xp.linalg.eigh(xp.outer(a, a) + onp.diag([1.0, 2.0, 4.0])).eigenvalues * onp.array([1.0, 2.0, 3.0])),
        "slogdet_field_logabsdet": lambda xp, a: xp.linalg.slogdet(xp.outer(a, a) + onp.diag([1.0, 2.0, 4.0])).logabsdet,
        "svd_field_S": lambda xp, a: xp.sum(xp.linalg.svd(xp.outer(a, a) + onp.diag([1.0, 2.0, 4.0])).S * onp.array([1.0, 2.0, 3.0])),
        "eig_field_eigenvalues": lambda xp, a: xp.sum(xp.real(xp.linalg.eig(xp.outer(a, a) + onp.diag([1.0, 2.0, 4.0])).eigenvalues)),
        # a traced value handed over by KEYWORD (the primitive wrapper only unboxes positional arguments)
        "kw_clip_a_min": lambda xp, a: xp.sum(xp.clip(onp.array([0.5, -1.2, 2.0]), a_min=a[0], a_max=3.0)) * a[1],
        "kw_clip_a": lambda xp, a: xp.sum(xp.clip(a=a * 0.3, a_min=-0.5, a_max=0.5) * a),
        "kw_linspace_start": lambda xp, a: xp.sum(xp.linspace(start=a[0], stop=2.0, num=4) ** 2) * a[1],
        "kw_full_fill_value": lambda xp, a: xp.sum(xp.full((2, 2), fill_value=a[0]) ** 2) * a[1],
        "kw_full_like_fill_value": lambda xp, a: xp.sum(xp.full_like(onp.ones(3), fill_value=a[0]) ** 2) * a[1],
        "kw_pad_constant_values": lambda xp, a: xp.sum(xp.pad(onp.ones(3), 1, constant_values=a[0]) ** 2) * a[1],
        "kw_pad_array": lambda xp, a: xp.sum(xp.pad(array=a, pad_width=1) ** 2),
        "kw_dot_b": lambda xp, a: xp.sum(xp.dot(onp.arange(6.0).reshape(2, 3), b=a * a)),
        "kw_tensordot_b": lambda xp, a: xp.sum(xp.tensordot(onp.arange(6.0).reshape(2, 3), b=a * a, axes=1)),
        "kw_outer_b": lambda xp, a: xp.sum(xp.outer(onp.array([1.0, 2.0]), b=a * a)),
        "kw_append_values": lambda xp, a: xp.sum(xp.append(onp.ones(2), values=a) ** 2),
        "kw_repeat_a": lambda xp, a: xp.sum(xp.repeat(a=a, repeats=2) ** 2),
        "kw_trace_a": lambda xp, a: xp.trace(a=xp.outer(a, a)) * a[0],
        "kw_diag_v": lambda xp, a: xp.sum(xp.diag(v=a) ** 2),
        "kw_sum_initial": lambda xp, a: xp.sum(onp.ones(3), initial=a[0]) ** 2 * a[1],
        "kw_sum_where": lambda xp, a: xp.sum(a * a, where=onp.array([True, False, True])),
        "kw_mean_where": lambda xp, a: xp.mean(a * a, where=onp.array([True, False, True])),
        "kw_std_a": lambda xp, a: xp.std(a=a * a),
        "kw_sort_a": lambda xp, a: xp.sum(xp.sort(a=a) * onp.array([1.0, 2.0, 3.0])),
        "kw_where_xy": lambda xp, a: xp.sum(xp.where(onp.array([True, False, True]), a, a * a)),
        "getattr_builtin_T": lambda xp, a: xp.sum(getattr(xp.outer(a, a), "T") * onp.arange(9.0).reshape(3, 3)),
        "round_builtin": lambda xp, a: round(a[0]) * a[1],
    }
    return P_


def run_protocols(res, rng):
    from autograd.core import make_jvp, make_vjp

    import autograd.numpy as anp

    x = onp.array([0.73, -1.31, 2.17])
    for name, prog in protocol_programs().items():
        try:
            with warnings.catch_warnings():
                warnings.simplefilter("ignore")
                y0 = prog(onp, x.copy())
            plain_ok = isinstance(y0, (float, onp.floating)) or (isinstance(y0, onp.ndarray) and y0.ndim == 0)
        except Exception:
            plain_ok = False
        if not plain_ok:
            res["not_judged"]["numpy_rejects_config"] = res["not_judged"].get("numpy_rejects_config", 0) + 1
            continue
        F = lambda xf: onp.array([float(prog(onp, onp.asarray(xf)))])
        for mode in ("rev", "fwd"):
            res["evaluations"] += 1
            sig = {"engine": "battery", "family": "python_protocol", "prog": name, "mode": mode}
            case = {"kind": "protocol", "prog": name, "mode": mode}
            try:
                with warnings.catch_warnings():
                    warnings.simplefilter("ignore")
                    if mode == "rev":
                        vj, val = make_vjp(lambda t: prog(anp, t), x.copy())
                        d = onp.asarray(vj(1.0), dtype=float)
                    else:
                        d = None
                        tang = []
                        for k in range(3):
                            e = onp.zeros(3)
                            e[k] = 1.0
                            val, tk = make_jvp(lambda t: prog(anp, t), x.copy())(e)
                            tang.append(float(tk))
                        d = onp.array(tang)
            except Exception as e:
                res["counters"]["loud"] = res["counters"].get("loud", 0) + 1
                res["judged"][sig_key(dict(sig, outcome="raised"))] = 1
                res["sets"].setdefault("protocol_raises", set()).add("%s: %s" % (name, type(e).__name__))
                continue
            if find_boxes(val) or find_boxes(d):
                res["violations"].append({"sig": dict(sig, symptom="tracer_leak"), "case": case, "detail": name})
                continue
            ref = []
            okfd = True
            for k in range(3):
                e = onp.zeros(3)
                e[k] = 1.0
                fd = common.fd_directional(F, x, e)
                okfd = okfd and fd.ok
                ref.append(float(fd.val[0]) if fd.val is not None else onp.nan)
            if not okfd:
                res["not_judged"]["irregular_point"] = res["not_judged"].get("irregular_point", 0) + 1
                continue
            ref = onp.array(ref)
            if d.shape != (3,) or not onp.allclose(d, ref, rtol=1e-6, atol=1e-8):
                res["violations"].append({"sig": dict(sig, symptom="wrong_value"), "case": case, "detail": "%s: derivative %r but the plain program has %r" % (name, d.tolist(), ref.tolist())})
                continue
            res["judged"][sig_key(dict(sig, outcome="dependent"))] = 1


def secondary_jobs(pid, tier, seed):
    """The unsupported-option catalogue and the loudness cases again under `python -O`: a guard written
    as an `assert` disappears there."""
    return [("optimized", [sys.executable, "-O"], {"VF_OPT": "1"}, [pid, "--tier", tier, "--seed", str(seed), "--shard", "0", "--nshards", "1"])]


def run_shard(pid, tier, seed, idx, n):
    common.setup_repo()
    res = _new_result()
    if os.environ.get("VF_OPT") == "1":
        res["info"]["python_optimize_flag"] = sys.flags.optimize
        if not sys.flags.optimize:
            res["not_judged"]["harness_error"] = 1
            return res
        run_option_catalogue(res, seed, 0, 1, tier)
        run_loudness(res)
        for v in res["violations"]:
            v["sig"]["interpreter"] = "python -O"
        res["judged"] = {k + "|-O": v for k, v in res["judged"].items()}
        res["sets"] = {k: sorted(v) for k, v in res["sets"].items()}
        return res
    cal, denied = enumerate_callables()
    res["info"]["callables"] = len(cal)
    res["info"]["denylist_hits"] = len(denied)
    if idx == 0:
        res["sets"]["denied"] = set(denied)
    for k, (ns, name) in enumerate(cal):
        if k % n != idx:
            continue
        rng = onp.random.Generator(onp.random.PCG64([seed, k, 89]))
        try:
            run_callable(res, ns, name, rng, tier)
        except Exception:
            res["not_judged"]["harness_error"] = res["not_judged"].get("harness_error", 0) + 1
            res["sets"].setdefault("harness_errors", set()).add("%s.%s: %s" % (ns, name, traceback.format_exc()[-300:]))
    run_option_catalogue(res, seed, idx, n, tier)
    if idx == 1 % n:
        run_box_attributes(res, onp.random.Generator(onp.random.PCG64([seed, 97])))
    if idx == 2 % n:
        run_loudness(res)
    if idx == 3 % n:
        run_protocols(res, onp.random.Generator(onp.random.PCG64([seed, 99])))
    res["sets"] = {k: sorted(v) for k, v in res["sets"].items()}
    return res


def replay(pid, case):
    common.setup_repo()
    res = _new_result()
    rng = onp.random.Generator(onp.random.PCG64(5))
    k = case["kind"]
    if k in ("battery", "option"):
        c = P.decode_case(case["case"])
        mode = case["mode"]
        if k == "battery" and case.get("name"):
            # re-run the whole callable (independence / leak outcomes are not functions of one descriptor)
            run_callable(res, case["ns"], case["name"], rng, "quick")
            res["violations"] = [v for v in res["violations"] if v["case"].get("template") == case["template"] and v["case"].get("x") == case["x"] and v["case"].get("mode") == mode]
        else:
            o = P.evaluate(c, mode, rng, "thorough")
            if o.status == "violation":
                sig = P.signature(c, mode)
                sig["symptom"] = o.symptom
                sig["engine"] = "battery"
                res["violations"].append({"sig": sig, "case": case, "detail": o.detail})
    elif k == "loudness":
        run_loudness(res)
        res["violations"] = [v for v in res["violations"] if v["case"]["name"] == case["name"]]
    elif k == "protocol":
        run_protocols(res, rng)
        res["violations"] = [v for v in res["violations"] if v["case"] == case]
    else:
        run_box_attributes(res, rng)
        res["violations"] = [v for v in res["violations"] if v["case"].get("name") == case.get("name")]
    if not res["violations"]:
        res["judged"]["replay"] = 1
    res["sets"] = {k: sorted(v) for k, v in res["sets"].items()}
    return res


def post(pid, tier, agg):
    out = []
    if agg["not_judged"].get("harness_error", 0) > 0.01 * max(1, agg["evaluations"]):
        out.append("harness errors: %d" % agg["not_judged"]["harness_error"])
    if len(agg["sets"].get("callables_reached", ())) < 250:
        out.append("fewer than 250 callables reached by a template (%d)" % len(agg["sets"].get("callables_reached", ())))
    if agg["counters"].get("loud", 0) < 1000:
        out.append("loud outcomes not observed")
    return out
