"""Engine `checker` (C18): acceptance of correct rules and rejection power of autograd.test_util.check_grads."""
import math
import traceback
import warnings

import numpy as onp

from .. import common
from ..common import sig_key

LEVEL = "exploration"
RULE = "Real executions of autograd.test_util.check_grads on user primitives (scalar, vector, matrix, broadcasting binary, complex vector, complex 0-d scalar, real-valued non-holomorphic |z|^2 of a complex scalar/vector, complex matrix whose derivative is a transposed view, tuple-of-arrays and dict arguments (rule building its dict in another key order)) whose VJP/JVP rules are correct (must pass: 0 rejections tolerated) or carry one planted defect from {factor 1+-1e-2/1e-1/1, sign, reversal/transpose, missing reduction over a broadcast axis, one entry off by 10%/100%, dropped conjugate, leaf swap, one NaN / inf entry, rule not traceable (order-2 defect)} in the VJP, the JVP or the rule's own derivative; requested modes rev/fwd/both and orders 1-2; every trial reseeds NumPy's global generator so the checker's own projections vary. Verdict per defect setting: one-sided exact binomial test of p>=0.99 at alpha=1e-9. combo_check over 3 positional x 2 keyword candidates with the defect active for exactly one combination (each combination in turn) plus a trace of which combinations the primal was evaluated on (all must be). Defect settings repeated on a function object that first passed a weaker explicit request (other mode, order 1) and is then checked with the defaults; the older entry point autograd.util.quick_grad_check, verbose and not; correct functions with leafless (empty tuple/list/dict) arguments in every mode and order. A rule wrong only for a named option is rejected when the check is requested with that option (closure, quick_grad_check kwargs= / extra_args=). Also check_grads on correct built-in elementwise/reduction primitives at regular points, incl. points where an intermediate harmlessly underflows (Gaussian tail, stable log-sum-exp / softmax with a very negative logit). Non-trivial iff >= 1 trial ran; distinct = distinct (argument kind, defect, where, modes, order) settings."
ASSUMPTIONS = ["statistical statement: alpha=1e-9 per setting; 'small relative error' fixed at >= 1e-2 (1e-3 is measured and reported only)", "points are well scaled: |values|,|derivatives| <= 10"]


def nshards(pid, tier):
    return 16


def _new_result():
    return {"evaluations": 0, "judged": {}, "violations": [], "not_judged": {}, "counters": {}, "sets": {}, "samples": [], "info": {}}


def binom_threshold(n, p=0.99, alpha=1e-9):
    """Largest r with P(X <= r | n, p) <= alpha (X ~ Binomial(n,p)); -1 if none."""
    logs = [math.lgamma(n + 1) - math.lgamma(k + 1) - math.lgamma(n - k + 1) + k * math.log(p) + (n - k) * math.log(1 - p) for k in range(n + 1)]
    cum = 0.0
    r = -1
    for k in range(n + 1):
        cum += math.exp(logs[k])
        if cum <= alpha:
            r = k
        else:
            break
    return r


# ---------------------------------------------------------------- primitives with plantable defects


def apply_defect(val, defect, ctx):
    import autograd.numpy as anp

    if defect is None or defect.startswith("order2") or defect in ("leaf_swap", "missing_reduction"):
        return val
    if defect.startswith("factor:"):
        return val * (1.0 + float(defect[7:]))
    if defect == "sign":
        return -val
    if defect == "reverse":
        return val[::-1] if anp.ndim(val) >= 1 else val
    if defect == "transpose":
        return anp.transpose(val)
    if defect.startswith("entry:"):
        d = float(defect[6:])
        m = onp.zeros(onp.shape(val))
        m.ravel()[ctx.get("entry", 0) % max(1, m.size)] = d
        return val * (1.0 + m)
    if defect == "drop_conj":
        return anp.conj(val)
    if defect in ("nan_entry", "inf_entry"):
        bad = onp.nan if defect == "nan_entry" else onp.inf
        m = onp.ones(onp.shape(val))
        if m.ndim == 0:
            return val * bad
        m.ravel()[ctx.get("entry", 0) % max(1, m.size)] = bad
        return val * m
    raise ValueError(defect)


def build(kind, defect, where, rng):
    """Return (fun, args). `where` in {vjp, jvp, None}."""
    import autograd.numpy as anp
    from autograd.extend import defjvp, defvjp, primitive
    from autograd.tracer import getval

    dv = defect if where == "vjp" else None
    dj = defect if where == "jvp" else None
    ctx = {"entry": int(rng.integers(0, 64))}
    raw_if = lambda d, x: getval(x) if (d or "").startswith("order2") else x

    if kind == "scalar":
        P = primitive(lambda x: onp.sin(x) * x)
        dfun = lambda x: anp.cos(x) * x + anp.sin(x)
        defvjp(P, lambda ans, x: lambda g: apply_defect(g * dfun(raw_if(dv, x)), dv, ctx))
        defjvp(P, lambda g, ans, x: apply_defect(g * dfun(raw_if(dj, x)), dj, ctx))
        return P, (float(rng.uniform(0.5, 1.5)),)
    if kind == "vector":
        P = primitive(lambda x: onp.tanh(x) * onp.arange(1, x.size + 1))
        dfun = lambda x: (1 - anp.tanh(x) ** 2) * onp.arange(1, 5)
        defvjp(P, lambda ans, x: lambda g: apply_defect(g * dfun(raw_if(dv, x)), dv, ctx))
        defjvp(P, lambda g, ans, x: apply_defect(g * dfun(raw_if(dj, x)), dj, ctx))
        return P, (rng.uniform(0.3, 1.2, size=4) * rng.choice([-1.0, 1.0], size=4),)
    if kind == "matrix":
        B = rng.uniform(0.5, 1.5, size=(3, 3))
        P = primitive(lambda X: onp.dot(onp.sin(X), B))
        defvjp(P, lambda ans, X: lambda g: apply_defect(anp.dot(g, B.T) * anp.cos(raw_if(dv, X)), dv, ctx))
        defjvp(P, lambda g, ans, X: apply_defect(anp.dot(g * anp.cos(raw_if(dj, X)), B), dj, ctx))
        return P, (rng.uniform(0.3, 1.2, size=(3, 3)),)
    if kind == "bcast":
        # f(x:(3,), y:(2,3)) = x*sin(y); VJP wrt x must sum over the broadcast axis
        P = primitive(lambda x, y: x * onp.sin(y))

        def vx(ans, x, y):
            def vjp(g):
                full = g * anp.sin(y)
                if dv == "missing_reduction":
                    return full
                return apply_defect(anp.sum(full, axis=0), dv, ctx)

            return vjp

        defvjp(P, vx, lambda ans, x, y: lambda g: g * x * anp.cos(y))

        def jx(g, ans, x, y):
            if dj == "missing_reduction":
                return g * anp.sin(y[0])  # forgets to broadcast: wrong shape
            return apply_defect(g * anp.sin(y), dj, ctx)

        defjvp(P, jx, lambda g, ans, x, y: g * x * anp.cos(y))
        return P, (rng.uniform(0.3, 1.2, size=3), rng.uniform(0.3, 1.2, size=(2, 3)))
    if kind == "complex":
        c = 0.7 - 0.4j
        P = primitive(lambda z: z * z * c)
        # autograd's documented convention gives for holomorphic f: vjp(g) = g * f'(z); jvp(v) = f'(z) v
        defvjp(P, lambda ans, z: lambda g: apply_defect(g * (2 * raw_if(dv, z) * c), dv, ctx))
        defjvp(P, lambda g, ans, z: apply_defect(g * 2 * raw_if(dj, z) * c, dj if dj != "drop_conj" else "drop_conj", ctx))
        return P, (rng.uniform(0.3, 1.2, size=3) + 1j * rng.uniform(0.3, 1.2, size=3),)
    if kind == "cscalar":
        # complex 0-d argument (Python complex), holomorphic
        c = 0.7 - 0.4j
        P = primitive(lambda z: z * z * c)
        defvjp(P, lambda ans, z: lambda g: apply_defect(g * (2 * raw_if(dv, z) * c), dv, ctx))
        defjvp(P, lambda g, ans, z: apply_defect(g * 2 * raw_if(dj, z) * c, dj, ctx))
        return P, (complex(rng.uniform(0.3, 1.2), rng.uniform(0.3, 1.2)),)
    if kind in ("cabs2_scalar", "cabs2_vector"):
        # real-valued, non-holomorphic |z|^2: gradient (documented convention) g*2*conj(z); a dropped conjugate
        # changes the imaginary part of the gradient only
        P = primitive(lambda z: onp.real(z * onp.conj(z)))
        defvjp(P, lambda ans, z: lambda g: apply_defect(g * 2 * anp.conj(raw_if(dv, z)), dv, ctx))

        def jz(g, ans, z):
            zz = raw_if(dj, z)
            if dj == "drop_conj":
                return 2 * anp.real(zz * g)
            return apply_defect(2 * anp.real(anp.conj(zz) * g), dj, ctx)

        defjvp(P, jz)
        if kind == "cabs2_scalar":
            return P, (complex(rng.uniform(0.3, 1.2), rng.uniform(0.3, 1.2)),)
        return P, (rng.uniform(0.3, 1.2, size=3) + 1j * rng.uniform(0.3, 1.2, size=3),)
    if kind == "sqlinear":
        # y = A x with a square, non-symmetric A: input and output spaces coincide, and using A where A' belongs
        # (or the reverse) is an error whose quadratic form x'(A - A')x vanishes identically
        Amat = rng.uniform(0.5, 1.5, size=(4, 4)) * rng.choice([-1.0, 1.0], size=(4, 4))
        P = primitive(lambda x: onp.dot(Amat, x))
        defvjp(P, lambda ans, x: lambda g: apply_defect(anp.dot(Amat if dv == "transpose" else Amat.T, g), None if dv == "transpose" else dv, ctx))
        defjvp(P, lambda g, ans, x: apply_defect(anp.dot(Amat.T if dj == "transpose" else Amat, g), None if dj == "transpose" else dj, ctx))
        return P, (rng.uniform(0.3, 1.2, size=4),)
    if kind == "cmatrix":
        # complex matrix argument; the derivative comes back as a transposed (non C-contiguous) view
        B = rng.uniform(0.5, 1.5, size=(3, 2)) + 1j * rng.uniform(0.2, 0.8, size=(3, 2))
        P = primitive(lambda Z: onp.dot(Z.T, B))  # (2,3)->(3,2)... Z is (3,3)
        defvjp(P, lambda ans, Z: lambda g: apply_defect(anp.transpose(anp.dot(g, B.T)) if dv != "transpose" else anp.dot(g, B.T), None if dv == "transpose" else dv, ctx))
        defjvp(P, lambda g, ans, Z: apply_defect(anp.dot(anp.transpose(g) if dj != "transpose" else g, B), None if dj == "transpose" else dj, ctx))
        return P, (rng.uniform(0.3, 1.2, size=(3, 3)) + 1j * rng.uniform(0.3, 1.2, size=(3, 3)),)
    if kind == "dictarg":
        # f({"a": a, "b": b}) = a*sin(b); the rule builds its gradient dict in ANOTHER key order
        P = primitive(lambda d: d["a"] * onp.sin(d["b"]))

        def vd(ans, d):
            def vjp(g):
                import autograd.builtins as ab

                ga = g * anp.sin(d["b"])
                gb = g * d["a"] * anp.cos(d["b"])
                if dv == "leaf_swap":
                    return ab.dict([("b", ga), ("a", gb)])
                return ab.dict([("b", gb), ("a", apply_defect(ga, dv, ctx))])

            return vjp

        defvjp(P, vd)

        def jd(g, ans, d):
            a, b = (g["b"], g["a"]) if dj == "leaf_swap" else (g["a"], g["b"])
            return apply_defect(a * anp.sin(d["b"]), dj, ctx) + b * d["a"] * anp.cos(d["b"])

        defjvp(P, jd)
        return P, ({"a": rng.uniform(0.3, 1.2, size=3), "b": rng.uniform(0.3, 1.2, size=3)},)
    if kind == "container":
        # f((a, b)) = a*sin(b) with a, b of the same shape: swapping the leaves keeps the structure
        P = primitive(lambda t: t[0] * onp.sin(t[1]))

        def vt(ans, t):
            def vjp(g):
                ga = g * anp.sin(t[1])
                gb = g * t[0] * anp.cos(t[1])
                import autograd.builtins as ab

                if dv == "leaf_swap":
                    return ab.tuple((gb, ga))
                return ab.tuple((apply_defect(ga, dv, ctx), gb))

            return vjp

        defvjp(P, vt)

        def jt(g, ans, t):
            a, b = (g[1], g[0]) if dj == "leaf_swap" else (g[0], g[1])
            return apply_defect(a * anp.sin(t[1]), dj, ctx) + b * t[0] * anp.cos(t[1])

        defjvp(P, jt)
        return P, ((rng.uniform(0.3, 1.2, size=3), rng.uniform(0.3, 1.2, size=3)),)
    raise ValueError(kind)


def build_combo(st, rng):
    """P(x, scale=1.0) = scale*sin(x) checked through combo_check over three positional candidates of different
    shapes (x two keyword candidates); the planted defect is active for one combination only. The primitive records
    which combinations its primal was evaluated on."""
    import autograd.numpy as anp
    from autograd.extend import defjvp, defvjp, primitive
    from autograd.test_util import combo_check

    cands = [float(rng.uniform(0.5, 1.5)), rng.uniform(0.3, 1.2, size=3), rng.uniform(0.3, 1.2, size=(2, 2))]
    scales = [1.0, 2.0]
    idx_of = lambda x: {(): 0, (3,): 1, (2, 2): 2}[onp.shape(x)]
    trig = tuple(st["trigger"]) if st["trigger"] is not None else None
    seen = set()

    def raw(x, scale=1.0):
        seen.add((idx_of(x), scales.index(scale)))
        return scale * onp.sin(x)

    P = primitive(raw)
    fac = lambda x, scale, on: (1.0 + float(st["defect"][7:])) if (on and trig == (idx_of(x), scales.index(scale))) else 1.0
    defvjp(P, lambda ans, x, scale=1.0: lambda g: g * scale * anp.cos(x) * fac(x, scale, st["where"] == "vjp"))
    defjvp(P, lambda g, ans, x, scale=1.0: g * scale * anp.cos(x) * fac(x, scale, st["where"] == "jvp"))
    P.seen = seen
    P.expected = {(i, j) for i in range(3) for j in ((0, 1) if st["kw"] else (0,))}
    if st["kw"]:
        thunk = lambda: combo_check(P, [0], modes=st["modes"], order=st["order"])(cands, scale=scales)
    else:
        thunk = lambda: combo_check(P, [0], modes=st["modes"], order=st["order"])(cands)
    return P, (thunk,)


def settings(tier):
    out = []
    kinds = ["scalar", "vector", "matrix", "bcast", "complex", "container", "cscalar", "cabs2_scalar", "cabs2_vector", "cmatrix", "dictarg", "sqlinear"]
    for kind in kinds:
        if kind == "dictarg":
            # autograd's dict constructor has no forward rule: a rule that builds a dict cannot be differentiated
            # again in forward mode (loud NotImplementedError, C17's subject) - orders / modes restricted accordingly
            out.append({"kind": kind, "defect": None, "where": None, "modes": ["rev"], "order": 2})
            out.append({"kind": kind, "defect": None, "where": None, "modes": ["rev"], "order": 1})
            out.append({"kind": kind, "defect": None, "where": None, "modes": ["fwd"], "order": 1})
        else:
            out.append({"kind": kind, "defect": None, "where": None, "modes": ["fwd", "rev"], "order": 2})
            out.append({"kind": kind, "defect": None, "where": None, "modes": ["rev"], "order": 1})
            out.append({"kind": kind, "defect": None, "where": None, "modes": ["fwd"], "order": 2})
        defects = ["factor:0.01", "factor:-0.01", "factor:0.1", "factor:1.0", "sign", "entry:0.1", "entry:1.0"]
        if kind in ("vector",):
            defects.append("reverse")
        if kind in ("matrix", "cmatrix", "sqlinear"):
            defects.append("transpose")
        if kind == "bcast":
            defects.append("missing_reduction")
        if kind in ("complex", "cscalar", "cabs2_scalar", "cabs2_vector"):
            defects.append("drop_conj")
        defects += ["nan_entry", "inf_entry"]
        if kind in ("container", "dictarg"):
            defects.append("leaf_swap")
        if kind in ("scalar", "cscalar", "cabs2_scalar"):
            defects = [d for d in defects if not d.startswith("entry")]
        for d in defects:
            for where in ("vjp", "jvp"):
                m = "rev" if where == "vjp" else "fwd"
                out.append({"kind": kind, "defect": d, "where": where, "modes": [m], "order": 1})
                if d in ("factor:0.1", "sign", "entry:1.0") and kind != "dictarg":
                    out.append({"kind": kind, "defect": d, "where": where, "modes": ["fwd", "rev"], "order": 2})
        # order-2 defects: first-order values right, rule not traceable
        if kind not in ("container", "bcast", "cabs2_scalar", "cabs2_vector", "cmatrix", "dictarg", "sqlinear"):
            for where in ("vjp", "jvp"):
                m = "rev" if where == "vjp" else "fwd"
                out.append({"kind": kind, "defect": "order2_untraceable", "where": where, "modes": [m], "order": 2})
        # informational: the suite's own 1e-3 factor
        out.append({"kind": kind, "defect": "factor:0.001", "where": "vjp", "modes": ["rev"], "order": 1, "informational": True})
    # the same settings again AFTER a default-modes check of a primitive that has no forward rule (that check
    # fails loudly): later checks must be unaffected
    for kind in ("vector", "scalar"):
        for d, where in (("sign", "jvp"), ("factor:0.1", "jvp"), ("sign", "vjp")):
            out.append({"kind": kind, "defect": d, "where": where, "modes": None, "order": 1, "after_vjp_only": True})
        out.append({"kind": kind, "defect": None, "where": None, "modes": None, "order": 2, "after_vjp_only": True})
    # the SAME function object checked first with weaker explicit options that its defect passes (other mode,
    # order 1), then with the defaults / the full request: the second verdict must not be the first one's
    for kind in ("vector", "scalar", "matrix"):
        for d, where in (("sign", "jvp"), ("factor:0.1", "jvp"), ("sign", "vjp"), ("factor:0.1", "vjp")):
            out.append({"kind": kind, "defect": d, "where": where, "modes": None, "order": 2, "after_weaker_check": True})
        for where in ("vjp", "jvp"):
            out.append({"kind": kind, "defect": "order2_untraceable", "where": where, "modes": None, "order": 2, "after_weaker_check": True})
        out.append({"kind": kind, "defect": None, "where": None, "modes": None, "order": 2, "after_weaker_check": True})
    # the older entry point autograd.util.quick_grad_check (reverse mode, order 1), verbose and not
    for kind in ("vector", "scalar"):
        for verbose in (True, False):
            for d in ("sign", "factor:0.1", "factor:0.01", "entry:1.0", None):
                if d and d.startswith("entry") and kind == "scalar":
                    continue
                out.append({"kind": kind, "defect": d, "where": "vjp" if d else None, "modes": ["rev"], "order": 1, "via": "quick_grad_check", "verbose": verbose})
    # combo_check: the defect is active for exactly one (positional candidate, keyword candidate) combination
    for kw in (True, False):
        out.append({"kind": "combo", "defect": None, "where": None, "modes": ["fwd", "rev"], "order": 2, "kw": kw, "trigger": None})
        for i in range(3):
            for j in ((0, 1) if kw else (0,)):
                for where in ("vjp", "jvp"):
                    out.append({"kind": "combo", "defect": "factor:0.1", "where": where, "modes": ["rev" if where == "vjp" else "fwd"], "order": 1, "kw": kw, "trigger": [i, j]})
    return out


def run_setting(res, st, n_trials, seed):
    from autograd.test_util import check_grads

    name = "%s|%s|%s|%s|o%d" % (st["kind"], st["defect"], st["where"], "+".join(st["modes"] or ["default"]), st["order"])
    sig = {"engine": "checker", "kind": st["kind"], "defect": st["defect"], "where": st["where"], "modes": st["modes"], "order": st["order"]}
    if st.get("after_vjp_only"):
        sig["after_vjp_only"] = True
        name += "|after_vjp_only"
    if st.get("after_weaker_check"):
        sig["after_weaker_check"] = True
        name += "|after_weaker_check"
    if st.get("via"):
        sig.update(via=st["via"], verbose=st["verbose"])
        name += "|%s|verbose=%s" % (st["via"], st["verbose"])
    if st["kind"] == "combo":
        sig.update(kw=st["kw"], trigger=st["trigger"])
        name += "|kw=%s|trigger=%s" % (st["kw"], st["trigger"])
    case = {"kind": "setting", "setting": st, "n": n_trials, "seed": seed}
    rej = 0
    other = {}
    ran = 0
    for t in range(n_trials):
        rng = onp.random.Generator(onp.random.PCG64([seed, t, 71]))
        onp.random.seed(int(rng.integers(0, 2**31)))
        try:
            fun, args = build_combo(st, rng) if st["kind"] == "combo" else build(st["kind"], st["defect"], st["where"], rng)
        except Exception:
            res["not_judged"]["harness_error"] = res["not_judged"].get("harness_error", 0) + 1
            res["sets"].setdefault("harness_errors", set()).add(traceback.format_exc()[-300:])
            continue
        res["evaluations"] += 1
        ran += 1
        try:
            with warnings.catch_warnings():
                warnings.simplefilter("ignore")
                argn = tuple(range(len(args))) if len(args) > 1 else 0
                if st.get("after_vjp_only"):
                    from autograd.extend import defvjp as _dv, primitive as _pr

                    Pv = _pr(lambda x: x * 3.0)
                    _dv(Pv, lambda ans, x: lambda g: g * 3.0)
                    try:
                        check_grads(Pv)(onp.array([0.4, -0.9]))
                    except Exception:
                        pass
                    check_grads(fun, order=st["order"])(*args)  # default modes
                elif st.get("after_weaker_check"):
                    weak_modes = ["rev"] if st["where"] == "jvp" else ["fwd"] if st["where"] == "vjp" else ["rev"]
                    if st["defect"] == "order2_untraceable":
                        weak_modes = ["rev"] if st["where"] == "vjp" else ["fwd"]
                    try:
                        check_grads(fun, modes=weak_modes, order=1)(*args)
                    except AssertionError:
                        # the planted defect is invisible to the weaker request by construction
                        res["counters"]["weaker_check_rejected"] = res["counters"].get("weaker_check_rejected", 0) + 1
                    check_grads(fun)(*args)  # defaults: both modes, order 2
                elif st.get("via") == "quick_grad_check":
                    import contextlib, io

                    from autograd.util import quick_grad_check

                    with contextlib.redirect_stdout(io.StringIO()):
                        quick_grad_check(fun, args[0], verbose=st["verbose"])
                elif st["kind"] == "combo":
                    fun.seen.clear()
                    try:
                        args[0]()
                    finally:
                        missing = sorted(fun.expected - fun.seen)
                        if missing and (st["defect"] is None):
                            s = dict(sig, symptom="combo_not_evaluated")
                            res["violations"].append({"sig": s, "case": case, "detail": "combo_check returned without evaluating the function on the combinations (candidate index, keyword) %s" % (missing,)})
                        res["counters"]["combo_combinations_seen"] = res["counters"].get("combo_combinations_seen", 0) + len(fun.seen)
                elif len(args) > 1:
                    # differentiate w.r.t. the first argument (the one carrying the defect)
                    check_grads(fun, 0, modes=st["modes"], order=st["order"])(*args)
                else:
                    check_grads(fun, modes=st["modes"], order=st["order"])(*args)
        except AssertionError:
            rej += 1
        except Exception as e:
            rej += 1  # a loud failure also rejects the rule
            other[type(e).__name__] = other.get(type(e).__name__, 0) + 1
    if ran == 0:
        return
    res["counters"]["trials"] = res["counters"].get("trials", 0) + ran
    res["sets"].setdefault("rejection_rates", set()).add("%s: %d/%d%s" % (name, rej, ran, (" other=%s" % other) if other else ""))
    if st["defect"] is None:
        if rej > 0:
            s = dict(sig, symptom="checker_false_reject")
            res["violations"].append({"sig": s, "case": case, "detail": "check_grads rejected a correct rule in %d of %d trials %s" % (rej, ran, other)})
        res["judged"][sig_key(sig)] = ran
        return
    if st.get("informational"):
        res["counters"]["informational_settings"] = res["counters"].get("informational_settings", 0) + 1
        return
    thr = binom_threshold(ran)
    if rej <= thr:
        s = dict(sig, symptom="checker_low_power")
        res["violations"].append({"sig": s, "case": case, "detail": "planted defect rejected in only %d of %d trials (violation threshold <= %d for p>=0.99 at alpha=1e-9)" % (rej, ran, thr)})
    res["judged"][sig_key(sig)] = ran
    if len(res["samples"]) < 6:
        res["samples"].append({"setting": name, "trials": ran, "rejections": rej, "threshold": thr})


def run_builtin_acceptance(res, seed, idx, n, tier):
    """check_grads on correct built-in primitives at regular, well-scaled points must pass."""
    import autograd.numpy as anp
    from autograd.test_util import check_grads

    funs = {
        "sin": (anp.sin, "any"), "cos": (anp.cos, "any"), "tanh": (anp.tanh, "any"), "exp": (anp.exp, "small"), "log": (anp.log, "pos"), "sqrt": (anp.sqrt, "pos"),
        "square": (anp.square, "any"), "arctan": (anp.arctan, "any"), "sum": (anp.sum, "any"), "mean": (anp.mean, "any"), "cumsum": (anp.cumsum, "any"), "sinh": (anp.sinh, "small"),
        "x*x": (lambda x: x * x, "any"), "x/(1+x^2)": (lambda x: x / (1 + x * x), "any"), "dot": (lambda x: anp.dot(x, x), "any"), "outer": (lambda x: anp.outer(x, x), "any"), "logaddexp": (lambda x: anp.logaddexp(x, 0.3), "any"),
        "reshape": (lambda x: anp.reshape(x, (2, 2)), "any"), "var": (anp.var, "any"), "std": (anp.std, "any"), "prod": (anp.prod, "pos"), "index": (lambda x: x[::-1] * x[0], "any"),
    }
    # correct functions at regular points where an intermediate harmlessly underflows to zero (far tail of a
    # Gaussian, a stable log-sum-exp with one very negative logit, a softmax weight)
    funs["underflow:gauss_tail"] = (lambda x: anp.sum(anp.exp(-(x * 12.0) ** 2) + x), "any")
    funs["underflow:logsumexp"] = (lambda x: (lambda z: anp.max(z) + anp.log(anp.sum(anp.exp(z - anp.max(z)))))(anp.concatenate([x, anp.array([-800.0])]) * 1.0), "any")
    funs["underflow:softmax_weight"] = (lambda x: (lambda z: anp.sum(x * anp.exp(z[:4] - 1.0) / anp.sum(anp.exp(z - 1.0))))(anp.concatenate([x, anp.array([-760.0])])), "any")
    from ..gen.catalogue import sample

    names = sorted(funs)
    reps = 6 if tier == "quick" else 60
    for k, name in enumerate(names):
        if k % n != idx:
            continue
        f, dom = funs[name]
        rej = 0
        for t in range(reps):
            rng = onp.random.Generator(onp.random.PCG64([seed, k, t, 73]))
            onp.random.seed(int(rng.integers(0, 2**31)))
            x = sample(rng, (4,), dom)
            res["evaluations"] += 1
            try:
                with warnings.catch_warnings():
                    warnings.simplefilter("ignore")
                    check_grads(f, modes=["fwd", "rev"], order=2)(x)
            except Exception as e:
                rej += 1
                detail = "%s at %r: %s" % (name, x, str(e)[:300])
        sig = {"engine": "checker", "kind": "builtin", "fn": name}
        if rej:
            s = dict(sig, symptom="checker_false_reject")
            res["violations"].append({"sig": s, "case": {"kind": "builtin", "fn": name, "seed": seed}, "detail": "%d/%d rejections; %s" % (rej, reps, detail)})
        res["judged"][sig_key(sig)] = reps


def run_empty_container_acceptance(res, seed):
    """Correct functions whose (differentiated) arguments include containers WITHOUT leaves - an empty tuple /
    list / dict of extra parameters - are accepted in every mode and order."""
    import autograd.numpy as anp
    from autograd.test_util import check_grads

    rng = onp.random.Generator(onp.random.PCG64([seed, 77]))
    x = rng.uniform(0.3, 1.2, size=3)
    f = lambda p, x: anp.sum(anp.sin(x) * x) * (1 + len(p))
    for pname, p in (("tuple", ()), ("list", []), ("dict", {}), ("nested", ((), {"k": []}))):
        for argn in (0, (0, 1), 1):
            for modes in (["rev"], ["fwd"], ["fwd", "rev"]):
                for order in (1, 2):
                    res["evaluations"] += 1
                    sig = {"engine": "checker", "kind": "empty_container", "container": pname, "argnum": str(argn), "modes": modes, "order": order}
                    onp.random.seed(int(rng.integers(0, 2**31)))
                    try:
                        with warnings.catch_warnings():
                            warnings.simplefilter("ignore")
                            check_grads(f, argn, modes=modes, order=order)(p, x)
                    except Exception as e:
                        res["violations"].append({"sig": dict(sig, symptom="checker_false_reject"), "case": {"kind": "empty_container", "seed": seed}, "detail": "check_grads(f, %r, modes=%r, order=%d)(%r, x) raised %s: %s" % (argn, modes, order, p, type(e).__name__, str(e)[:200])})
                        continue
                    res["judged"][sig_key(sig)] = 1


def run_option_forwarding(res, seed):
    """A rule that is wrong only for a NAMED option of the checked function (a missing factor when scale != 1) is
    rejected when the check is asked for with that option - through check_grads on a closure, through
    quick_grad_check's kwargs= and extra_args= - and accepted with the default option, where the rule is right."""
    import autograd.numpy as anp
    from autograd.extend import defvjp, primitive
    from autograd.test_util import check_grads
    from autograd.util import quick_grad_check

    P = primitive(lambda x, shift=0.0, scale=1.0: onp.sin(x) * scale + shift)
    defvjp(P, lambda ans, x, shift=0.0, scale=1.0: lambda g: g * anp.cos(x))  # forgets `scale`
    rng = onp.random.Generator(onp.random.PCG64([seed, 79]))
    import contextlib, io

    for via in ("check_grads_closure", "quick_grad_check_kwargs", "quick_grad_check_extra_args", "quick_grad_check_default_option"):
        rej, ran = 0, 60
        for t in range(ran):
            onp.random.seed(int(rng.integers(0, 2**31)))
            x = rng.uniform(0.2, 1.2, size=3)
            res["evaluations"] += 1
            try:
                with warnings.catch_warnings():
                    warnings.simplefilter("ignore")
                    with contextlib.redirect_stdout(io.StringIO()):
                        if via == "check_grads_closure":
                            check_grads(lambda t_: P(t_, scale=3.0), modes=["rev"], order=1)(x)
                        elif via == "quick_grad_check_kwargs":
                            quick_grad_check(P, x, kwargs={"scale": 3.0}, verbose=False)
                        elif via == "quick_grad_check_extra_args":
                            quick_grad_check(P, x, extra_args=(0.5, 3.0), verbose=False)
                        else:
                            quick_grad_check(P, x, kwargs={"shift": 0.5}, verbose=False)
            except Exception:
                rej += 1
        sig = {"engine": "checker", "kind": "option_forwarding", "via": via}
        case = {"kind": "option_forwarding", "seed": seed}
        if via == "quick_grad_check_default_option":
            if rej:
                res["violations"].append({"sig": dict(sig, symptom="checker_false_reject"), "case": case, "detail": "%d/%d rejections of a rule that is right for the requested option" % (rej, ran)})
        elif rej < ran:
            res["violations"].append({"sig": dict(sig, symptom="checker_low_power"), "case": case, "detail": "a rule wrong only for scale != 1 was rejected in %d of %d checks requested with scale=3 (%s)" % (rej, ran, via)})
        res["judged"][sig_key(sig)] = ran


def run_shard(pid, tier, seed, idx, n):
    common.setup_repo()
    res = _new_result()
    if idx == 3 % n:
        run_empty_container_acceptance(res, seed)
    if idx == 4 % n:
        run_option_forwarding(res, seed)
    sts = settings(tier)
    res["info"]["settings"] = len(sts)
    n_trials = 400 if tier == "quick" else 2000
    res["info"]["trials_per_setting"] = n_trials
    res["info"]["binomial_threshold"] = binom_threshold(n_trials)
    for k, st in enumerate(sts):
        if k % n != idx:
            continue
        run_setting(res, st, n_trials, seed * 1000 + k)
    run_builtin_acceptance(res, seed, idx, n, tier)
    res["sets"] = {k: sorted(v) for k, v in res["sets"].items()}
    return res


def replay(pid, case):
    common.setup_repo()
    res = _new_result()
    if case["kind"] == "setting":
        run_setting(res, case["setting"], case["n"], case["seed"])
    elif case["kind"] == "option_forwarding":
        run_option_forwarding(res, case["seed"])
    elif case["kind"] == "empty_container":
        run_empty_container_acceptance(res, case["seed"])
    else:
        run_builtin_acceptance(res, case["seed"], 0, 1, "quick")
        res["violations"] = [v for v in res["violations"] if v["case"]["fn"] == case["fn"]]
    res["sets"] = {k: sorted(v) for k, v in res["sets"].items()}
    return res


def post(pid, tier, agg):
    out = []
    if agg["not_judged"].get("harness_error", 0) > 0:
        out.append("harness errors: %d" % agg["not_judged"]["harness_error"])
    if agg["counters"].get("trials", 0) < 10000:
        out.append("too few check_grads trials ran")
    return out
