"""Engine `containers` (C12): nested tuple/list/dict arguments differentiated leaf-wise; flatten."""
import traceback
import warnings

import numpy as onp

from .. import common
from ..common import dec, enc, fd_directional, find_boxes, pair, realify, sdesc, sdesc_diff, sig_key, unrealify

LEVEL = "exploration"
RULE = "Nested containers (depth 0-3, arity 0-4, tuple/list/dict with string, int (non-positional and positional-looking, negative) or tuple keys, empty containers, scalar/array leaves, real/complex) and programs that reach leaves through randomly chosen container operations (int/negative index, slices, + on both sides, iteration, unpacking, len, in, index, dict keys/values/items/get/iteration, autograd.builtins tuple/list/dict constructors mixing traced and constant elements, container-valued outputs, linalg named tuples) and apply a smooth function with random weights. Reference: Richardson FD of the same program run on plain Python containers, realified over the container; structure via O-struct; forward mode via the adjoint pairing. Constructor idioms on traced containers (mapping + keyword overrides, pairs + keywords, keywords only, copies, generators) against closed forms in both modes, and EMPTY top-level arguments (gradient keeps the empty nesting). flatten / flatten_func called INSIDE the differentiated function on the traced container (closed forms). flatten/unflatten: mutual inverse, linearity, commutation with grad. Non-trivial iff the container has >= 1 float leaf and the program touched >= 1 leaf; distinct = distinct (container structure, operation multiset) signatures."
ASSUMPTIONS = ["plain Python containers implement the reference semantics of the container operations", "depth <= 3, arity <= 4; dict keys are all-strings or all-ints (flatten requires sortable keys)"]


def nshards(pid, tier):
    return 16


def _new_result():
    return {"evaluations": 0, "judged": {}, "violations": [], "not_judged": {}, "counters": {}, "sets": {}, "samples": [], "info": {}}


def gen_container(rng, depth=0, maxdepth=3, cx=False, top=True):
    k = int(rng.integers(0, 9))
    if (not top and k <= 3) or depth >= maxdepth:
        return gen_leaf(rng, cx)
    arity = int(rng.integers(0 if not top else 1, 5))
    if k <= 5:
        elems = [gen_container(rng, depth + 1, maxdepth, cx, False) for _ in range(arity)]
        return tuple(elems) if k % 2 == 0 else elems
    # key pools: strings; ints that are not positions; ints that ARE valid (negative / permuted) positions of
    # the dict's own length, so a rule that treats a key as a sequence index lands on another entry; tuples
    u_ = rng.uniform()
    pool = ["a", "b", "c", "dd"] if u_ < 0.5 else [0, 3, 7, 11] if u_ < 0.65 else [-1, 1, 0, -2] if u_ < 0.8 else [2, 0, 3, 1] if u_ < 0.9 else [(0, 1), (1, 0), (0, 0), (2,)]
    keys = pool[:arity]
    if rng.uniform() < 0.6:
        # insertion order is not the sorted order
        keys = [keys[int(t)] for t in rng.permutation(len(keys))]
    return {kk: gen_container(rng, depth + 1, maxdepth, cx, False) for kk in keys}


def reinsert(v, rng):
    """The same nested value with every dict rebuilt in another key insertion order."""
    if isinstance(v, dict):
        ks = list(v.keys())
        ks = [ks[int(t)] for t in rng.permutation(len(ks))]
        return {k: reinsert(v[k], rng) for k in ks}
    if isinstance(v, (tuple, list)):
        return type(v)(reinsert(e, rng) for e in v)
    return v


def gen_leaf(rng, cx):
    k = int(rng.integers(0, 5))
    c = cx and rng.uniform() < 0.4
    if k == 0:
        v = float(rng.uniform(0.3, 1.3))
        return complex(v, float(rng.uniform(0.2, 0.9))) if c else v
    shape = [(), (2,), (3,), (2, 2), (1,)][k]
    a = rng.uniform(0.3, 1.3, size=shape) * rng.choice([-1.0, 1.0], size=shape)
    if c:
        a = a + 1j * rng.uniform(0.2, 0.9, size=shape)
    return a


def build_access(rng, val, ops_used, depth=0):
    """Return (fn, desc) where fn(container) reaches one float leaf through container operations."""
    if not common.is_container(val):
        return (lambda c: c), []
    if isinstance(val, (tuple, list)):
        n = len(val)
        if n == 0:
            return None, None
        i = int(rng.integers(0, n))
        sub, d = build_access(rng, val[i], ops_used, depth + 1)
        if sub is None:
            # try other children
            for j in range(n):
                sub, d = build_access(rng, val[j], ops_used, depth + 1)
                if sub is not None:
                    i = j
                    break
            if sub is None:
                return None, None
        op = str(rng.choice(["idx", "negidx", "slice", "slice_step", "iter", "unpack", "extend_right", "extend_left", "ctor_tuple", "ctor_list", "len_guard", "contains", "nested_slice", "reversed", "extend_left_traced", "extend_right_traced", "extend_left_traced3", "ctor_tuple3", "extend_right_empty", "extend_left_empty", "extend_empty_slice", "star_args", "zip_pairs", "tuple_conv", "list_conv", "reversed_builtin", "index_method", "sum_pairs"]))
        ops_used.append(op)
        extra = 0.77
        if op == "idx":
            f = lambda c: c[i]
        elif op == "negidx":
            f = lambda c: c[i - n]
        elif op == "slice":
            lo = int(rng.integers(0, i + 1))
            f = lambda c: c[lo:][i - lo]
        elif op == "slice_step":
            f = lambda c: c[::-1][n - 1 - i]
        elif op == "nested_slice":
            lo = int(rng.integers(0, i + 1))
            hi = int(rng.integers(i + 1, n + 1))
            f = lambda c: c[lo:hi][0:][i - lo]
        elif op == "reversed":
            f = lambda c: c[-1::-1][::-1][i]
        elif op == "iter":

            def f(c):
                for k, e in enumerate(c):
                    if k == i:
                        return e

        elif op == "unpack":

            def f(c):
                (*items,) = c
                return items[i]

        elif op == "extend_right":
            f = (lambda c: (c + (extra, 1.0))[i]) if isinstance(val, tuple) else (lambda c: (c + [extra, 1.0])[i])
        elif op == "extend_left":
            f = (lambda c: ((extra, 2.0) + c)[i + 2]) if isinstance(val, tuple) else (lambda c: ([extra, 2.0] + c)[i + 2])
        elif op == "extend_right_empty":
            f = (lambda c: (c + ())[i]) if isinstance(val, tuple) else (lambda c: (c + [])[i])
        elif op == "extend_left_empty":
            f = (lambda c: (() + c)[i]) if isinstance(val, tuple) else (lambda c: ([] + c)[i])
        elif op == "extend_empty_slice":
            f = lambda c: (c + c[n:])[i]
        elif op == "extend_right_traced":
            # traced elements appended: (c + (c[j], c[i]))[n + 1]
            j = int(rng.integers(0, n))
            mk = (lambda *e: tuple(e)) if isinstance(val, tuple) else (lambda *e: list(e))
            f = lambda c: (c + mk(c[j], c[i]))[n + 1]
        elif op == "extend_left_traced":
            j = int(rng.integers(0, n))
            mk = (lambda *e: tuple(e)) if isinstance(val, tuple) else (lambda *e: list(e))
            f = lambda c: (mk(c[j], c[i]) + c)[1]
        elif op == "extend_left_traced3":
            j = int(rng.integers(0, n))
            mk = (lambda *e: tuple(e)) if isinstance(val, tuple) else (lambda *e: list(e))
            f = lambda c: (mk(c[j], 0.5, c[i]) + c)[2]
        elif op == "ctor_tuple3":

            def f(c):
                import autograd.builtins as ab

                j2 = (i + 1) % n
                t = ab.tuple((c[j2], 3.0, c[i], c[j2]))
                return t[2] if _is_traced(c) else c[i]

        elif op == "ctor_tuple":

            def f(c):
                import autograd.builtins as ab

                t = ab.tuple((c[i], 3.0, c[i]))
                return t[0] if _is_traced(c) else c[i]

        elif op == "ctor_list":

            def f(c):
                import autograd.builtins as ab

                t = ab.list([1.0, c[i]])
                return t[1] if _is_traced(c) else c[i]

        elif op == "star_args":
            f = lambda c: (lambda *a: a[i])(*c)
        elif op == "zip_pairs":
            f = lambda c: [p for p, q in zip(c, range(n))][i]
        elif op == "tuple_conv":
            f = lambda c: tuple(c)[i]
        elif op == "list_conv":
            f = lambda c: list(c)[i - n]
        elif op == "reversed_builtin":
            f = lambda c: list(reversed(c))[n - 1 - i]
        elif op == "index_method":
            f = lambda c: c[list(range(n)).index(i)] if len(list(c)) == n else None
        elif op == "sum_pairs":
            f = lambda c: [e for k, e in enumerate(c) if k == i][0]
        elif op == "len_guard":
            f = lambda c: c[i] if len(c) == n else None
        else:
            f = lambda c: c[i] if (3.0 not in ()) else None
        return (lambda c: sub(f(c))), [op] + d
    # dict
    keys = list(val.keys())
    if not keys:
        return None, None
    order = [int(t) for t in rng.permutation(len(keys))]
    for j in order:
        sub, d = build_access(rng, val[keys[j]], ops_used, depth + 1)
        if sub is not None:
            key = keys[j]
            break
    else:
        return None, None
    op = str(rng.choice(["key", "get", "get_default", "items", "values", "keys_iter", "iter", "ctor_dict", "len_in", "get_default_is_leaf", "values_twice", "items_twice", "keys_twice", "items_pos", "keys_pos", "iter_pos", "get_missing_traced_default", "dict_conv", "pop_copy", "update_copy", "kwargs_unpack", "comprehension", "setdefault_copy", "fromkeys"]))
    ops_used.append("d:" + op)
    pos = keys.index(key)
    if op == "key":
        f = lambda c: c[key]
    elif op == "dict_conv":
        f = lambda c: dict(c)[key]
    elif op == "pop_copy":
        f = lambda c: dict(c).pop(key)
    elif op == "update_copy":

        def f(c):
            d2 = {}
            d2.update(c)
            d2.update({"__new__": 1.0})
            return d2[key]

    elif op == "kwargs_unpack":
        f = (lambda c: (lambda **kw: kw[key])(**c)) if all(isinstance(k_, str) for k_ in keys) else (lambda c: c[key])
    elif op == "comprehension":
        f = lambda c: {k_: v_ for k_, v_ in c.items()}[key]
    elif op == "setdefault_copy":
        f = lambda c: dict(c).setdefault(key, 3.0)
    elif op == "fromkeys":
        f = lambda c: dict.fromkeys(c, c[key])[keys[0]]
    elif op == "get_default_is_leaf":
        # the default handed to get() is the very object stored under the key (e.g. initial parameters)
        orig = val[key]
        f = lambda c: c.get(key, orig)
    elif op == "get_missing_traced_default":
        f = lambda c: c.get("__missing__", c[key])
    elif op == "values_twice":

        def f(c):
            vs = c.values()
            cnt = sum(1 for _ in vs)
            return list(vs)[pos] if cnt == len(keys) else None

    elif op == "items_twice":

        def f(c):
            it = c.items()
            cnt = sum(1 for _ in it)
            for k, v in it:
                if k == key and cnt == len(keys):
                    return v

    elif op == "keys_twice":

        def f(c):
            ks = c.keys()
            cnt = sum(1 for _ in ks)
            return c[list(ks)[pos]] if cnt == len(keys) else None

    elif op == "items_pos":
        f = lambda c: list(c.items())[pos][1]
    elif op == "keys_pos":
        f = lambda c: c[list(c.keys())[pos]]
    elif op == "iter_pos":
        f = lambda c: c[list(c)[pos]]
    elif op == "get":
        f = lambda c: c.get(key)
    elif op == "get_default":
        f = lambda c: c.get(key, 5.0) if c.get("__missing__", 7.0) == 7.0 else None
    elif op == "items":

        def f(c):
            for k, v in c.items():
                if k == key:
                    return v

    elif op == "values":
        f = lambda c: list(c.values())[pos]
    elif op == "keys_iter":

        def f(c):
            for k in c.keys():
                if k == key:
                    return c[k]

    elif op == "iter":

        def f(c):
            for k in c:
                if k == key:
                    return c[k]

    elif op == "ctor_dict":

        def f(c):
            import autograd.builtins as ab

            if not _is_traced(c):
                return c[key]
            dd = ab.dict({"p": c[key], "q": 2.0})
            return dd["p"]

    else:
        f = lambda c: c[key] if (len(c) == len(keys) and key in c) else None
    return (lambda c: sub(f(c))), ["d:" + op] + d


def _is_traced(c):
    from autograd.tracer import isbox

    return isbox(c)


def leaf_fun(xp, leaf, w, kind):
    if kind == 0:
        return xp.sum(xp.real(w * xp.sin(leaf)))
    if kind == 1:
        return xp.sum(xp.real(w * leaf * leaf))
    return xp.sum(xp.real(w * xp.exp(0.3 * leaf)))


def make_program(rng, val):
    ops_used = []
    acc = []
    K = int(rng.integers(1, 6))
    for _ in range(K):
        fn, d = build_access(rng, val, ops_used)
        if fn is None:
            continue
        leaf = fn(val)
        if leaf is None or common.is_container(leaf):
            continue
        w = onp.asarray(rng.uniform(0.5, 1.5, size=onp.shape(leaf)) * rng.choice([-1.0, 1.0], size=onp.shape(leaf)))
        if onp.iscomplexobj(leaf):
            w = w + 1j * rng.uniform(0.2, 0.8, size=onp.shape(leaf))
        acc.append((fn, w, int(rng.integers(0, 3))))

    def f(xp, c):
        tot = 0.0
        for (fn, w, kind) in acc:
            tot = tot + leaf_fun(xp, fn(c), w, kind)
        return tot

    return f, ops_used, len(acc)


def run_case(res, case):
    import autograd.numpy as anp
    from autograd.core import make_jvp, make_vjp

    res["evaluations"] += 1
    rng = onp.random.Generator(onp.random.PCG64(case["seed"]))
    val = gen_container(rng, cx=case["cx"])
    if not common.leaves(val) or not common.is_float_valued(val):
        res["not_judged"]["no_leaves"] = res["not_judged"].get("no_leaves", 0) + 1
        return
    f, ops_used, nacc = make_program(rng, val)
    sig = {"engine": "containers", "family": "program", "struct": repr(sdesc(val))[:200], "ops": sorted(set(ops_used)), "cx": case["cx"], "out": case["out"]}

    def viol(symptom, detail, **kw):
        s = dict(sig, symptom=symptom, **kw)
        res["violations"].append({"sig": s, "case": case, "detail": detail + " | value=%s ops=%s" % (common.brief(val, 300), ops_used)})
        res["judged"][sig_key(s)] = res["judged"].get(sig_key(s), 0) + 1

    if nacc == 0:
        res["not_judged"]["no_access"] = res["not_judged"].get("no_access", 0) + 1
        return
    if case["out"] == "scalar":
        F_ag = lambda c: f(anp, c)
        F_np = lambda c: f(onp, c)
    elif case["out"] == "dict":
        import autograd.builtins as ab

        F_ag = lambda c: ab.dict({"w": f(anp, c), "b": f(anp, c) * 3.0 + 1.0, "k": anp.sin(f(anp, c))})
        F_np = lambda c: {"w": f(onp, c), "b": f(onp, c) * 3.0 + 1.0, "k": onp.sin(f(onp, c))}
    else:
        # container-valued output
        import autograd.builtins as ab

        F_ag = lambda c: ab.tuple((f(anp, c), ab.list([f(anp, c) * 2.0, 1.5])))
        F_np = lambda c: (f(onp, c), [f(onp, c) * 2.0, 1.5])
    with warnings.catch_warnings():
        warnings.simplefilter("ignore")
        try:
            y0 = F_np(val)
            h0 = common.vhash(val)
            vjp, yA = make_vjp(F_ag, val)
            g = common.rand_like(rng, y0)
            if isinstance(g, dict):
                # the caller's cotangent lists the keys in another order than the output was built
                g = {k: g[k] for k in reversed(list(g))}
            r = vjp(g if case["out"] != "scalar" else float(g))
        except Exception as e:
            return viol("exception:" + type(e).__name__, traceback.format_exc()[-400:])
        if find_boxes(r) or find_boxes(yA):
            return viol("tracer_leak", "")
        if common.vhash(val) != h0:
            return viol("input_modified", "")
        d = sdesc_diff(sdesc(val), sdesc(r))
        if d and d != "wrong_dtype":
            return viol(d, "gradient structure %s vs argument %s" % (sdesc(r), sdesc(val)))
        if not onp.allclose(realify(yA), realify(y0), rtol=1e-13, atol=1e-13):
            return viol("primal_mismatch", "%r vs %r" % (yA, y0))
        xf = realify(val)
        rr = realify(common.conj_tree(r))
        gg = realify(common.conj_tree(g))
        Ff = lambda v: realify(F_np(unrealify(v, val)))
        judged = 0
        for i in range(xf.size):
            e = onp.zeros(xf.size)
            e[i] = 1.0
            fd = fd_directional(Ff, xf, e)
            if not fd.ok:
                continue
            judged += 1
            exp = pair(gg, fd.val)
            if abs(rr[i] - exp) > 1e-6 * (1.0 + abs(exp)):
                return viol("wrong_value", "realified gradient entry %d: %r expected %r" % (i, rr[i], exp))
        # forward mode through the adjoint pairing
        try:
            v = common.rand_like(rng, val)
            t = make_jvp(F_ag, val)(v)[1]
            if find_boxes(t):
                return viol("tracer_leak", "jvp", mode="fwd")
            dd = sdesc_diff(sdesc(y0), sdesc(t))
            if dd and dd != "wrong_dtype":
                return viol(dd, "tangent structure %s vs output %s" % (sdesc(t), sdesc(y0)), mode="fwd")
            lhs, rhs = pair(gg, realify(t)), pair(rr, realify(v))
            if abs(lhs - rhs) > 1e-10 * (1.0 + float(onp.sum(onp.abs(gg * realify(t)))) + float(onp.sum(onp.abs(rr * realify(v))))):
                return viol("not_adjoint", "<g,JVP(v)>=%r <VJP(g),v>=%r" % (lhs, rhs), mode="fwd")
            res["counters"]["fwd_compared"] = res["counters"].get("fwd_compared", 0) + 1
        except NotImplementedError as e:
            res["counters"]["fwd_unsupported"] = res["counters"].get("fwd_unsupported", 0) + 1
            res["sets"].setdefault("fwd_unsupported", set()).add(str(e)[:60])
        except Exception as e:
            return viol("exception:" + type(e).__name__, traceback.format_exc()[-400:], mode="fwd")
    if judged == 0:
        res["not_judged"]["irregular_point"] = res["not_judged"].get("irregular_point", 0) + 1
        return
    for o in set(ops_used):
        res["counters"]["op:" + o] = res["counters"].get("op:" + o, 0) + 1
    res["judged"][sig_key(sig)] = res["judged"].get(sig_key(sig), 0) + 1
    if res["evaluations"] % 150 == 1:
        res["samples"].append({"value": common.brief(val, 250), "ops": ops_used, "leaves_touched": nacc, "out": case["out"]})


def run_flatten_case(res, case):
    import autograd.numpy as anp
    from autograd import grad
    from autograd.misc.flatten import flatten, flatten_func

    res["evaluations"] += 1
    rng = onp.random.Generator(onp.random.PCG64(case["seed"]))
    val = gen_container(rng, cx=False)
    if case["seed"][1] % 3 == 0:
        # leaves with another memory layout (Fortran-ordered / transposed views): same values
        val = common.tree_map(lambda l: onp.asfortranarray(l) if isinstance(l, onp.ndarray) and l.ndim >= 2 else l, val)
        if not any(isinstance(l, onp.ndarray) and l.ndim >= 2 for l in common.leaves(val)):
            val = (val, onp.asfortranarray(rng.standard_normal((2, 3))), rng.standard_normal((3, 2)).T)
    # flatten documents: no mixed numeric types, sortable keys
    sig = {"engine": "containers", "family": "flatten", "struct": repr(sdesc(val))[:200]}

    def viol(symptom, detail):
        s = dict(sig, symptom=symptom)
        res["violations"].append({"sig": s, "case": case, "detail": detail + " | value=%s" % common.brief(val, 300)})
        res["judged"][sig_key(s)] = res["judged"].get(sig_key(s), 0) + 1

    with warnings.catch_warnings():
        warnings.simplefilter("ignore")
        try:
            flat, unflatten = flatten(val)
            n = realify(val).size
            if onp.shape(flat) != (n,):
                return viol("flatten_size", "flat shape %s, value has %d entries" % (onp.shape(flat), n))
            back = unflatten(flat)
            if sdesc_diff(sdesc(val), sdesc(back)) not in (None, "wrong_dtype"):
                return viol("unflatten_structure", "%s vs %s" % (sdesc(back), sdesc(val)))
            if not onp.array_equal(realify(back), realify(val)):
                return viol("unflatten_flatten", "unflatten(flatten(v)) != v")
            # a permutation of the entries of v (order is not specified, only mutual inverseness)
            if sorted(onp.asarray(flat).tolist()) != sorted(realify(val).tolist()):
                return viol("flatten_values", "flatten(v) is not a rearrangement of the leaves of v")
            u = rng.standard_normal(n)
            u2 = rng.standard_normal(n)
            fu = flatten(unflatten(u))[0]
            if not onp.array_equal(onp.asarray(fu), u):
                return viol("flatten_unflatten", "flatten(unflatten(u)) != u")
            a, b = 1.7, -0.6
            lin = flatten(unflatten(a * u + b * u2))[0]
            if not onp.allclose(lin, a * u + b * u2, rtol=1e-14, atol=1e-14):
                return viol("unflatten_linear", "")
            lhs = realify(unflatten(a * u + b * u2))
            rhs = a * realify(unflatten(u)) + b * realify(unflatten(u2))
            if not onp.allclose(lhs, rhs, rtol=1e-14, atol=1e-14):
                return viol("unflatten_linear", "")
            # another value of the same nesting whose dicts were filled in another order: the pair
            # (flatten, unflatten) built from `val` must serve it too (the layout is a function of the nesting)
            val2 = reinsert(common.tree_map(lambda l: l * 1.5 + 0.25, val), rng)
            flat2 = flatten(val2)[0]
            back2 = unflatten(flat2)
            if sdesc_diff(sdesc(val2), sdesc(back2)) not in (None, "wrong_dtype") or not onp.array_equal(realify(back2), realify(val2)):
                return viol("unflatten_other_insertion_order", "unflatten (built from v) applied to flatten(v2), v2 = same nesting with dict keys inserted in another order, is not v2: %s vs %s" % (common.brief(back2, 200), common.brief(val2, 200)))
            # commutation with grad
            if n:
                f, ops_used, nacc = make_program(rng, val)
                if nacc:
                    g_direct = grad(lambda c: f(anp, c))(val)
                    g_flat = grad(lambda vec: f(anp, unflatten(vec)))(flat)
                    fg = flatten(g_direct)[0]
                    if onp.shape(g_flat) != onp.shape(fg) or not onp.allclose(g_flat, fg, rtol=1e-12, atol=1e-12):
                        return viol("flatten_grad_commute", "grad(f o unflatten)(flatten x) != flatten(grad f (x)): %s vs %s" % (common.brief(onp.asarray(g_flat)), common.brief(onp.asarray(fg))))
                    ff, unfl, ex = flatten_func(lambda c: {"out": f(anp, c), "aux": [1.0]}, val)
                    out = ff(ex)
                    if onp.shape(out) != (2,):
                        return viol("flatten_func", "flatten_func output %r" % (out,))
                    res["counters"]["flatten_grad_commute"] = res["counters"].get("flatten_grad_commute", 0) + 1
        except Exception as e:
            return viol("exception:" + type(e).__name__, traceback.format_exc()[-400:])
    if n == 0:
        res["not_judged"]["empty"] = res["not_judged"].get("empty", 0) + 1
        return
    res["judged"][sig_key(sig)] = res["judged"].get(sig_key(sig), 0) + 1


def run_dict_order_cases(res, rng):
    """Dict-valued values whose contributions arrive with different key insertion orders (a caller's
    cotangent for an output that *is* the argument, plus indexed uses): results are keyed, not positional."""
    import autograd.builtins as ab
    import autograd.numpy as anp
    from autograd.core import make_jvp, make_vjp

    d0 = {"a": onp.array([1.0, 2.0]), "b": onp.array([0.5, -1.5]), "c": onp.array([3.0, 0.25])}
    progs = {
        "whole_then_key": (lambda d: ab.tuple((d, d["a"] * 2.0, d["c"] * d["b"])), lambda g: {"a": g[0]["a"] + 2.0 * g[1], "b": g[0]["b"] + g[2] * d0["c"], "c": g[0]["c"] + g[2] * d0["b"]}),
        "whole_twice": (lambda d: ab.tuple((d, d)), lambda g: {k: g[0][k] + g[1][k] for k in d0}),
        "key_then_whole": (lambda d: ab.tuple((d["b"] * 3.0, d)), lambda g: {"a": g[1]["a"], "b": g[1]["b"] + 3.0 * g[0], "c": g[1]["c"]}),
        "nested_whole": (lambda d: ab.dict({"x": d, "y": d["a"] + d["b"]}), lambda g: {"a": g["x"]["a"] + g["y"], "b": g["x"]["b"] + g["y"], "c": g["x"]["c"]}),
    }
    orders = (["a", "b", "c"], ["c", "b", "a"], ["b", "c", "a"])

    def reorder(v, order):
        if isinstance(v, dict) and set(v) == set(order):
            return {k: reorder(v[k], order) for k in order}
        if isinstance(v, dict):
            return {k: reorder(x, order) for k, x in v.items()}
        if isinstance(v, (tuple, list)):
            return type(v)(reorder(x, order) for x in v)
        return v

    for name, (f, expected) in progs.items():
        for order in orders:
            res["evaluations"] += 1
            sig = {"engine": "containers", "family": "dict_order", "prog": name, "order": "".join(order)}
            case = {"kind": "dict_order", "prog": name, "order": order}
            try:
                with warnings.catch_warnings():
                    warnings.simplefilter("ignore")
                    vjp, y = make_vjp(f, d0)
                    g = reorder(common.rand_like(rng, y), order)
                    r = vjp(g)
                    exp = expected(g)
            except Exception as e:
                res["violations"].append({"sig": dict(sig, symptom="exception:" + type(e).__name__), "case": case, "detail": traceback.format_exc()[-300:]})
                continue
            bad = [k for k in d0 if not onp.allclose(r[k], exp[k], rtol=1e-13, atol=1e-13)] if isinstance(r, dict) and set(r) == set(d0) else ["structure"]
            if bad:
                res["violations"].append({"sig": dict(sig, symptom="wrong_value"), "case": case, "detail": "gradient leaves %s wrong when the caller's cotangent lists keys as %s: got %s expected %s" % (bad, order, common.brief(r, 200), common.brief(exp, 200))})
                continue
            res["judged"][sig_key(sig)] = 1
            res["counters"]["dict_order_cases"] = res["counters"].get("dict_order_cases", 0) + 1


def run_inplace_reuse_cases(res, rng):
    """One list / dict OBJECT differentiated, changed in place by its owner (an entry replaced by another shape,
    dtype or kind, an entry appended / removed / added), and differentiated again: the second result must equal
    the result for a fresh copy of the changed container (and the plain-container FD reference)."""
    import copy

    import autograd.numpy as anp
    from autograd import grad, make_jvp

    def f_list(c):
        tot = 0.0
        for k, e in enumerate(c):
            tot = tot + anp.sum(anp.real(e) ** 2) * (k + 1.0)
        return tot

    def f_dict(c):
        tot = 0.0
        for k in sorted(c.keys()):
            tot = tot + anp.sum(anp.sin(anp.real(c[k]))) * (1.0 + len(k))
        return tot + anp.sum(c.get("extra", 0.0) * 3.0)

    A_ = lambda *s: rng.uniform(0.3, 1.2, size=s)
    steps_list = [
        ("replace_other_shape", lambda c: c.__setitem__(0, A_(1))),
        ("replace_scalar_by_array", lambda c: c.__setitem__(1, A_(2, 2))),
        ("replace_array_by_scalar", lambda c: c.__setitem__(0, 0.7)),
        ("replace_other_dtype", lambda c: c.__setitem__(0, A_(3).astype(onp.float32))),
        ("append", lambda c: c.append(A_(2))),
        ("pop", lambda c: c.pop()),
        ("insert_front", lambda c: c.insert(0, 1.5)),
        ("replace_by_complex", lambda c: c.__setitem__(0, A_(2) + 1j * A_(2))),
        ("nested_change", lambda c: c[2].__setitem__(0, A_(4))),
    ]
    steps_dict = [
        ("replace_other_shape", lambda c: c.__setitem__("w", A_(1))),
        ("replace_other_dtype", lambda c: c.__setitem__("w", A_(3).astype(onp.float32))),
        ("del_key", lambda c: c.__delitem__("b")),
        ("add_used_key", lambda c: c.__setitem__("extra", A_(2))),
        ("add_unused_key", lambda c: c.__setitem__("zz", 2.5)),
        ("replace_array_by_scalar", lambda c: c.__setitem__("w", 0.4)),
        ("nested_change", lambda c: c["n"].__setitem__(1, A_(3))),
    ]
    for kind, f, mk, steps in (("list", f_list, lambda: [A_(3), 2.0, [A_(2), 0.5]], steps_list), ("dict", f_dict, lambda: {"w": A_(3), "b": A_(2), "n": [0.3, A_(2)]}, steps_dict)):
        for trial in range(6):
            order = [int(t) for t in rng.permutation(len(steps))][: 4]
            c = mk()
            hist = []
            with warnings.catch_warnings():
                warnings.simplefilter("ignore")
                try:
                    grad(f)(c)
                except Exception:
                    pass
                for si in order:
                    name, step = steps[si]
                    try:
                        step(c)
                    except Exception:
                        continue
                    hist.append(name)
                    res["evaluations"] += 1
                    sig = {"engine": "containers", "family": "inplace_reuse", "container": kind, "step": name}
                    case = {"kind": "inplace_reuse", "container": kind, "hist": list(hist)}
                    outs = []
                    # the changed object first (it was also the LAST container differentiated before the change:
                    # one-entry memos keyed on identity stay warm), then a fresh copy, then the object once more
                    for obj in (c, copy.deepcopy(c), c):
                        try:
                            outs.append(("ok", grad(f)(obj)))
                        except Exception as e:
                            outs.append(("raised", type(e).__name__))
                    (k1, r1), (k2, r2) = outs[0], outs[1]
                    if k1 != k2 or (k1 == "raised" and r1 != r2):
                        res["violations"].append({"sig": dict(sig, symptom="history_dependence"), "case": case, "detail": "after %s on the same object: %s, on a fresh copy: %s" % (hist, (k1, r1 if k1 == "raised" else "value"), (k2, r2 if k2 == "raised" else "value"))})
                        break
                    if k1 == "ok":
                        if sdesc_diff(sdesc(r1), sdesc(r2)) or not onp.allclose(realify(r1), realify(r2), rtol=1e-12, atol=1e-12):
                            res["violations"].append({"sig": dict(sig, symptom="wrong_value"), "case": case, "detail": "after %s the gradient for the same (changed in place) object %s differs from the gradient for a fresh copy %s" % (hist, common.brief(r1, 200), common.brief(r2, 200))})
                            break
                        d = sdesc_diff(sdesc(common.tree_map(lambda l: l, c)), sdesc(r1))
                        if d and d != "wrong_dtype":
                            res["violations"].append({"sig": dict(sig, symptom=d), "case": case, "detail": "gradient structure %s vs container %s" % (sdesc(r1), sdesc(c))})
                            break
                    res["judged"][sig_key(sig)] = res["judged"].get(sig_key(sig), 0) + 1
    res["counters"]["inplace_reuse_checked"] = res["counters"].get("inplace_reuse_checked", 0) + 1


def run_constructor_and_empty_cases(res):
    """(a) Every spelling of autograd's dict / list / tuple constructors on TRACED containers (mapping + keyword
    overrides, pairs + keywords, keywords only, copy of a traced dict, list / tuple of a traced sequence, of a
    generator, of a range of traced items), against closed-form gradients. (b) EMPTY top-level arguments (an empty
    tuple / list / dict differentiated on its own or next to a non-empty one): the gradient has the argument's
    (empty) nesting whatever the function concatenates to it or reads around it."""
    import autograd.builtins as ab
    import autograd.numpy as anp
    from autograd import grad
    from autograd.core import make_jvp

    a0, b0 = 1.3, 0.7
    P = {"a": a0, "b": b0}
    C = {
        "dict_mapping_plus_kwargs": (lambda d: (lambda e: e["a"] * e["b"] ** 3 + e["c"])(ab.dict(d, c=d["a"] * 2.0, b=d["b"] * 1.0)), {"a": b0**3 + 2.0, "b": 3 * a0 * b0**2}),
        "dict_mapping_override_constant": (lambda d: (lambda e: e["a"] * e["b"])(ab.dict(d, b=5.0)), {"a": 5.0, "b": 0.0}),
        "dict_pairs_plus_kwargs": (lambda d: (lambda e: e["x"] * e["y"] + e["z"])(ab.dict([("x", d["a"]), ("y", d["b"])], z=d["a"] ** 2)), {"a": b0 + 2 * a0, "b": a0}),
        "dict_kwargs_only": (lambda d: (lambda e: e["x"] ** 2 * e["y"])(ab.dict(x=d["a"], y=d["b"])), {"a": 2 * a0 * b0, "b": a0**2}),
        "dict_copy_of_traced": (lambda d: (lambda e: e["a"] * e["b"] ** 3)(ab.dict(d)), {"a": b0**3, "b": 3 * a0 * b0**2}),
        "dict_of_items": (lambda d: (lambda e: e["a"] / e["b"])(ab.dict(d.items())), {"a": 1 / b0, "b": -a0 / b0**2}),
        "list_of_values_generator": (lambda d: (lambda l: l[0] * l[1] ** 2)(ab.list(v for v in (d["a"], d["b"]))), {"a": b0**2, "b": 2 * a0 * b0}),
        "tuple_of_list": (lambda d: (lambda t: t[0] ** 2 + t[1] * t[0])(ab.tuple([d["a"], d["b"]])), {"a": 2 * a0 + b0, "b": a0}),
        "list_plus_tuple_to_list": (lambda d: (lambda l: l[0] * l[2] + l[1])(ab.list((d["a"], 3.0)) + [d["b"]]), {"a": b0, "b": a0}),
    }
    for name, (f, want) in C.items():
        for mode in ("rev", "fwd"):
            res["evaluations"] += 1
            sig = {"engine": "containers", "family": "constructor_idiom", "fn": name, "mode": mode}
            case = {"kind": "ctor_empty", "fn": name, "mode": mode}
            try:
                with warnings.catch_warnings():
                    warnings.simplefilter("ignore")
                    if mode == "rev":
                        got = grad(f)(dict(P))
                    else:
                        got = {k: float(make_jvp(f, dict(P))({"a": float(k == "a"), "b": float(k == "b")})[1]) for k in P}
            except NotImplementedError:
                res["not_judged"]["raised:NotImplementedError"] = res["not_judged"].get("raised:NotImplementedError", 0) + 1
                continue
            except Exception as e:
                res["violations"].append({"sig": dict(sig, symptom="exception:" + type(e).__name__), "case": case, "detail": traceback.format_exc()[-300:]})
                continue
            if not (isinstance(got, dict) and set(got) == set(want) and all(abs(float(got[k]) - want[k]) <= 1e-12 * (1 + abs(want[k])) for k in want)):
                res["violations"].append({"sig": dict(sig, symptom="wrong_value"), "case": case, "detail": "gradient %r, closed form %r" % (got, want)})
            else:
                res["judged"][sig_key(sig)] = 1
    # (c) flatten / flatten_func called INSIDE the differentiated function on the traced container (the L2-regulariser
    # idiom): the flat vector is a differentiable function of the container
    from autograd.misc.flatten import flatten, flatten_func

    pt = {"w": onp.array([0.5, -1.5, 2.0]), "b": (onp.array([[1.0, 2.0]]), 0.25)}
    FL = {
        "l2_of_flatten": (lambda p: anp.sum(flatten(p)[0] ** 2), lambda p: {"w": 2 * p["w"], "b": (2 * p["b"][0], 2 * p["b"][1])}),
        "flatten_then_unflatten": (lambda p: (lambda fu: anp.sum(fu[1](fu[0] * 3.0)["w"] ** 2))(flatten(p)), lambda p: {"w": 18 * p["w"], "b": (0 * p["b"][0], 0.0)}),
        "flatten_of_derived_tree": (lambda p: anp.sum(flatten([p["w"] * 2.0, (p["b"][1], anp.sin(p["b"][0]))])[0]), lambda p: {"w": 2.0 + 0 * p["w"], "b": (onp.cos(p["b"][0]), 1.0)}),
        "flatten_func_inside": (lambda p: anp.sum(flatten_func(lambda q, s: anp.sum(q["w"] ** 2) * s + q["b"][1], p)[0](flatten(p)[0], 2.0)), lambda p: {"w": 4 * p["w"], "b": (0 * p["b"][0], 1.0)}),
    }
    for name, (f, want_f) in FL.items():
        res["evaluations"] += 1
        sig = {"engine": "containers", "family": "flatten_inside_trace", "fn": name}
        case = {"kind": "ctor_empty", "fn": name, "mode": "rev"}
        try:
            with warnings.catch_warnings():
                warnings.simplefilter("ignore")
                got = grad(f)(pt)
        except Exception as e:
            res["violations"].append({"sig": dict(sig, symptom="exception:" + type(e).__name__), "case": case, "detail": traceback.format_exc()[-300:]})
            continue
        want = want_f(pt)
        ok_ = common.sdesc(got) == common.sdesc(want) and all(onp.allclose(a_, b_, rtol=1e-12, atol=1e-12) for a_, b_ in zip(common.leaves(got), common.leaves(want)))
        if not ok_:
            res["violations"].append({"sig": dict(sig, symptom="wrong_value"), "case": case, "detail": "gradient %s, closed form %s" % (common.brief(got, 200), common.brief(want, 200))})
        else:
            res["judged"][sig_key(sig)] = 1
    x3 = onp.array([0.5, -1.5])
    E = {
        "tuple_right_of_plus": (lambda e: (lambda t: t[0] * t[1])((5.0, 2.0) + e), ()),
        "list_right_of_plus": (lambda e: (lambda t: t[0] * t[1])([5.0, 2.0] + e), []),
        "tuple_left_of_plus": (lambda e: (lambda t: t[0] * t[1])(e + (5.0, 2.0)), ()),
        "len_and_iteration": (lambda e: 3.0 + len(e) + sum(1.0 for _ in e), ()),
        "dict_get_default": (lambda e: e.get("missing", 2.5) * 2.0, {}),
        "dict_iteration": (lambda e: 1.0 + sum(2.0 for _ in e.items()), {}),
        "nested_empties": (lambda e: 1.0 + len(e[0]) + len(e[1]["k"]), ((), {"k": []})),
    }
    for name, (f, arg) in E.items():
        res["evaluations"] += 1
        sig = {"engine": "containers", "family": "empty_toplevel", "fn": name}
        case = {"kind": "ctor_empty", "fn": name, "mode": "rev"}
        try:
            with warnings.catch_warnings():
                warnings.simplefilter("ignore")
                got = grad(f)(arg)
                pair = grad(lambda e, x: f(e) * anp.sum(x * x), (0, 1))(arg, x3)
        except Exception as e:
            res["violations"].append({"sig": dict(sig, symptom="exception:" + type(e).__name__), "case": case, "detail": traceback.format_exc()[-300:]})
            continue
        if common.sdesc(got) != common.sdesc(arg) or common.sdesc(pair[0]) != common.sdesc(arg) or not onp.allclose(pair[1], 2 * x3 * f(arg), rtol=1e-13):
            res["violations"].append({"sig": dict(sig, symptom="wrong_structure"), "case": case, "detail": "gradient w.r.t. the empty argument %r is %r (alone) / %r (next to an array argument)" % (arg, got, pair)})
        else:
            res["judged"][sig_key(sig)] = 1


def run_namedtuple_cases(res, rng):
    """Named-tuple results of linalg used as containers inside a differentiated function."""
    import autograd.numpy as anp
    from autograd import grad

    M = onp.array([[2.0, 0.3, 0.1], [0.3, 1.0, 0.2], [0.1, 0.2, 3.0]])
    progs = {
        "eigh_unpack": (lambda xp, m: (lambda w, v: xp.sum(w * onp.array([1.0, 2.0, 3.0])) + xp.sum(v[:, 0] ** 2))(*xp.linalg.eigh(m))),
        "eigh_index": (lambda xp, m: xp.sum(xp.linalg.eigh(m)[0] ** 2)),
        "eigh_negindex": (lambda xp, m: xp.sum(xp.linalg.eigh(m)[-2] ** 2)),
        "slogdet_index": (lambda xp, m: xp.linalg.slogdet(m)[1] * 2.0),
        "slogdet_unpack": (lambda xp, m: (lambda s, l: s * l)(*xp.linalg.slogdet(m))),
        "svd_index": (lambda xp, m: xp.sum(xp.linalg.svd(m, full_matrices=False)[1] * onp.array([1.0, 0.5, 0.2]))),
        "svd_len": (lambda xp, m: xp.sum(xp.linalg.svd(m, full_matrices=False)[len(xp.linalg.svd(m, full_matrices=False)) - 2])),
        "eigh_iter": (lambda xp, m: sum(xp.sum(part**2) for part in xp.linalg.eigh(m))),
    }
    for name, p in progs.items():
        res["evaluations"] += 1
        sig = {"engine": "containers", "family": "namedtuple", "prog": name}
        case = {"kind": "namedtuple", "prog": name}
        try:
            with warnings.catch_warnings():
                warnings.simplefilter("ignore")
                g = grad(lambda m: p(anp, m))(M)
        except Exception as e:
            s = dict(sig, symptom="exception:" + type(e).__name__)
            res["violations"].append({"sig": s, "case": case, "detail": traceback.format_exc()[-300:]})
            continue
        xf = realify(M)
        F = lambda v: onp.array([float(p(onp, unrealify(v, M)))])
        bad = None
        for k in range(3):
            v = rng.standard_normal(xf.size)
            fd = fd_directional(F, xf, v)
            if not fd.ok:
                continue
            if abs(pair(realify(g), v) - fd.val[0]) > 1e-6 * (1 + abs(fd.val[0])):
                bad = "<grad,v>=%r FD %r" % (pair(realify(g), v), fd.val[0])
        if bad:
            s = dict(sig, symptom="wrong_value")
            res["violations"].append({"sig": s, "case": case, "detail": bad})
            continue
        res["judged"][sig_key(sig)] = 1


def run_shard(pid, tier, seed, idx, n):
    common.setup_repo()
    res = _new_result()
    total = 8000 if tier == "quick" else 100000
    for i in range(idx, total, n):
        case = {"kind": "program", "seed": [seed, i, 47], "cx": i % 4 == 3, "out": "scalar" if i % 5 else ("container" if i % 10 else "dict")}
        try:
            run_case(res, case)
        except Exception:
            res["not_judged"]["harness_error"] = res["not_judged"].get("harness_error", 0) + 1
            res["sets"].setdefault("harness_errors", set()).add(traceback.format_exc()[-500:])
    nfl = 1200 if tier == "quick" else 20000
    for i in range(idx, nfl, n):
        case = {"kind": "flatten", "seed": [seed, i, 53]}
        try:
            run_flatten_case(res, case)
        except Exception:
            res["not_judged"]["harness_error"] = res["not_judged"].get("harness_error", 0) + 1
            res["sets"].setdefault("harness_errors", set()).add(traceback.format_exc()[-500:])
    if idx == 0:
        run_namedtuple_cases(res, onp.random.Generator(onp.random.PCG64([seed, 59])))
    if idx == 1 % n:
        run_dict_order_cases(res, onp.random.Generator(onp.random.PCG64([seed, 61])))
    if idx == 2 % n:
        run_inplace_reuse_cases(res, onp.random.Generator(onp.random.PCG64([seed, 67])))
    if idx == 3 % n:
        run_constructor_and_empty_cases(res)
    res["sets"] = {k: sorted(v) for k, v in res["sets"].items()}
    return res


def replay(pid, case):
    common.setup_repo()
    res = _new_result()
    if case["kind"] == "program":
        run_case(res, case)
    elif case["kind"] == "flatten":
        run_flatten_case(res, case)
    elif case["kind"] == "inplace_reuse":
        for sd in range(4):
            run_inplace_reuse_cases(res, onp.random.Generator(onp.random.PCG64([sd, 67])))
        res["violations"] = [v for v in res["violations"] if v["case"]["container"] == case["container"] and v["case"]["hist"][-1] == case["hist"][-1]][:1]
    elif case["kind"] == "ctor_empty":
        run_constructor_and_empty_cases(res)
        res["violations"] = [v for v in res["violations"] if v["case"] == case]
    elif case["kind"] == "dict_order":
        run_dict_order_cases(res, onp.random.Generator(onp.random.PCG64(61)))
        res["violations"] = [v for v in res["violations"] if v["case"] == case]
    else:
        run_namedtuple_cases(res, onp.random.Generator(onp.random.PCG64(59)))
        res["violations"] = [v for v in res["violations"] if v["case"] == case]
    return res


def post(pid, tier, agg):
    out = []
    if agg["not_judged"].get("harness_error", 0) > 0.01 * max(1, agg["evaluations"]):
        out.append("harness errors: %d" % agg["not_judged"]["harness_error"])
    if agg["counters"].get("flatten_grad_commute", 0) < 100:
        out.append("flatten/grad commutation not evaluated")
    for o in ("extend_left", "extend_right", "slice", "ctor_tuple", "d:items", "d:get"):
        if not agg["counters"].get("op:" + o):
            out.append("container operation never exercised: " + o)
    return out
