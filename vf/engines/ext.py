"""Engine `ext` (C17): the extension contract for user-defined primitives; checkpoint transparency.

The workload's own primitives are the probes (public API only): rule bodies log what they were
called with; partial derivatives are pairwise distinct so that misrouting shows in the value."""
import itertools
import time
import traceback
import warnings

import numpy as onp

from .. import common
from ..common import bits_equal, enc, find_boxes, sig_key
from ..gen import programs

LEVEL = "exploration"
RULE = "User primitives P(x1..xn; scale) = scale*(sum c_i sin((i+1)x_i) + prod x_i) registered through every API (defvjp positional with None entries, defvjp(argnums=), defvjp_argnum, defvjp_argnums, defjvp with callables/'same'/None, defjvp_argnum, defjvp_argnums, def_linear) for arity 1-4 (quick) / 1-5 (thorough), every non-empty subset of differentiated positions, all arguments at one trace level or split over 2-3 nested differentiations (mixed partials): enumerated exhaustively. Rule bodies log (argnum, ans, args, kwargs). Several primitives wrapped around one raw callable with exact / straight-through / declared-zero / no rules in three orders of wrapping, registering and first use (each uses its own rules, the rule-less one raises), and re-registration after first use. Rules registered for a higher argument only (argnums= as tuple / generator / iterator / NumPy integers, deprecated methods with argnum=1): routed to that argument, argument 0 raises. Integer- and boolean-valued user primitives with surrogate rules: rules invoked, missing rule raises. checkpoint(f) vs f on random programs (one argument, nested, keyword, two arguments, ignored arguments, non-prefix subsets of traced arguments, a constant first argument, a factor vanishing exactly at the point): value bits and reverse-mode derivatives of order 1-3. Non-trivial iff the derivative was compared and the rule log inspected; distinct = distinct (api, arity, subset, level split) signatures."
ASSUMPTIONS = ["the partial derivatives of the generated primitive are pairwise distinct, so routing errors change the value", "missing-rule loudness: any exception type is accepted as 'raises'"]
EXHAUSTIVE = {"C17": "arity x non-empty subset x registration API x level split, up to arity 4 (quick) / 5 (thorough)"}


def nshards(pid, tier):
    return 16


def _new_result():
    return {"evaluations": 0, "judged": {}, "violations": [], "not_judged": {}, "counters": {}, "sets": {}, "samples": [], "info": {}}


APIS_VJP = ["defvjp", "defvjp_argnums_kw", "defvjp_argnum", "defvjp_argnums", "defvjp_none"]
APIS_JVP = ["defjvp", "defjvp_argnums_kw", "defjvp_argnum", "defjvp_argnums", "defjvp_none", "def_linear", "defjvp_same", "defjvp_same_argnums_kw"]


def make_primitive(api, n, cs, linear=False, none_pos=()):
    """Returns (prim, raw, LOG). LOG entries: (kind, argnum, ans, args, kwargs)."""
    import autograd.numpy as anp
    from autograd.extend import def_linear, defjvp, defjvp_argnum, defjvp_argnums, defvjp, defvjp_argnum, defvjp_argnums, primitive
    from autograd.tracer import getval

    LOG = []
    lin = linear or api in ("def_linear", "defjvp_same", "defjvp_same_argnums_kw")

    def raw(*xs, **kw):
        scale = kw.get("scale", 1.0)
        if lin:
            # def_linear / "same" mean: homogeneous-linear in each argument separately (multilinear)
            prod = scale * cs[0]
            for x in xs:
                prod = prod * x
            return prod
        tot = 0.0
        prod = 1.0
        for i, (c, x) in enumerate(zip(cs, xs)):
            tot = tot + c * onp.sin((i + 1) * x)
            prod = prod * x
        return scale * (tot + prod)

    P = primitive(raw)

    def partial(i, xs, kw):
        # traceable partial derivative wrt x_i
        scale = kw.get("scale", 1.0)
        prod = 1.0
        for j, x in enumerate(xs):
            if j != i:
                prod = prod * x
        if lin:
            return scale * cs[0] * prod
        return scale * (cs[i] * (i + 1) * anp.cos((i + 1) * xs[i]) + prod)

    def vjp_i(i):
        def maker(ans, *xs, **kw):
            LOG.append(("vjp_make", i, getval(ans), tuple(getval(x) for x in xs), dict(kw)))

            def vjp(g):
                LOG.append(("vjp_apply", i))
                return g * partial(i, xs, kw)

            return vjp

        return maker

    def jvp_i(i):
        def rule(g, ans, *xs, **kw):
            LOG.append(("jvp", i, getval(ans), tuple(getval(x) for x in xs), dict(kw)))
            return g * partial(i, xs, kw)

        return rule

    if api == "defvjp":
        defvjp(P, *[vjp_i(i) for i in range(n)])
    elif api == "defvjp_none":
        defvjp(P, *[None if i in none_pos else vjp_i(i) for i in range(n)])
    elif api == "defvjp_argnums_kw":
        # register in a permuted order through argnums=
        order = list(range(n))[::-1]
        defvjp(P, *[vjp_i(i) for i in order], argnums=order)
    elif api == "defvjp_argnum":

        def maker(argnum, ans, args, kwargs):
            return vjp_i(argnum)(ans, *args, **kwargs)

        defvjp_argnum(P, maker)
    elif api == "defvjp_argnums":

        def maker(argnums, ans, args, kwargs):
            vs = [vjp_i(i)(ans, *args, **kwargs) for i in argnums]
            return lambda g: tuple(v(g) for v in vs)

        defvjp_argnums(P, maker)
    elif api == "defjvp":
        defjvp(P, *[jvp_i(i) for i in range(n)])
    elif api == "defjvp_none":
        defjvp(P, *[None if i in none_pos else jvp_i(i) for i in range(n)])
    elif api == "defjvp_argnums_kw":
        order = list(range(n))[::-1]
        defjvp(P, *[jvp_i(i) for i in order], argnums=order)
    elif api == "defjvp_argnum":
        defjvp_argnum(P, lambda argnum, g, ans, args, kwargs: jvp_i(argnum)(g, ans, *args, **kwargs))
    elif api == "defjvp_argnums":

        def jm(argnums, gs, ans, args, kwargs):
            tot = 0.0
            for i, g in zip(argnums, gs):
                tot = tot + jvp_i(i)(g, ans, *args, **kwargs)
            return tot

        defjvp_argnums(P, jm)
    elif api == "def_linear":
        def_linear(P)
    elif api == "defjvp_same":
        defjvp(P, *["same"] * n)
    elif api == "defjvp_same_argnums_kw":
        # "same" rules registered through argnums= in a permuted order: the tangent must be substituted
        # at the registered argument position, not at the rule's position in the list
        order = list(range(n))[::-1]
        defjvp(P, *["same"] * n, argnums=order)
    else:
        raise ValueError(api)
    return P, raw, LOG


def true_partials(cs, xs, scale, lin):
    out = []
    for i in range(len(xs)):
        prod = 1.0
        for j, x in enumerate(xs):
            if j != i:
                prod *= x
        if lin:
            out.append(scale * cs[0] * prod)
        else:
            out.append(scale * (cs[i] * (i + 1) * onp.cos((i + 1) * xs[i]) + prod))
    return out


def mixed_partial(cs, xs, scale, a, b, lin):
    """d^2 P / dx_a dx_b (a != b)."""
    prod = 1.0
    for j, x in enumerate(xs):
        if j not in (a, b):
            prod *= x
    return scale * prod * (cs[0] if lin else 1.0)


def run_contract_case(res, spec):
    from autograd.core import make_jvp, make_vjp
    from autograd.differential_operators import grad, make_vjp as mvjp_nary

    api, n, S, split = spec["api"], spec["n"], tuple(spec["S"]), spec["split"]
    none_pos = tuple(spec.get("none_pos", ()))
    sig = {"engine": "ext", "family": "contract", "api": api, "n": n, "S": list(S), "split": split, "none": list(none_pos), "kw": spec["kw"]}
    case = {"kind": "contract", "spec": spec}
    res["evaluations"] += 1
    rng = onp.random.Generator(onp.random.PCG64(spec["seed"]))
    cs = [0.5 + 0.37 * (i + 1) for i in range(n)]
    xs = [float(rng.uniform(0.4, 1.3)) * (1 if i % 2 == 0 else -1) for i in range(n)]
    scale = 1.7 if spec["kw"] else 1.0
    kw = {"scale": scale} if spec["kw"] else {}

    def viol(symptom, detail):
        s = dict(sig)
        s["symptom"] = symptom
        res["violations"].append({"sig": s, "case": case, "detail": detail})
        k = sig_key(s)
        res["judged"][k] = res["judged"].get(k, 0) + 1

    is_jvp = api in APIS_JVP
    try:
        P, raw, LOG = make_primitive(api, n, cs, none_pos=none_pos)
    except Exception as e:
        return viol("exception:register:" + type(e).__name__, traceback.format_exc()[-300:])
    lin = api in ("def_linear", "defjvp_same", "defjvp_same_argnums_kw")
    tp = true_partials(cs, xs, scale, lin)
    y_plain = raw(*xs, **kw)
    with warnings.catch_warnings():
        warnings.simplefilter("ignore")
        try:
            if split == "flat":
                # all differentiated arguments at one trace level (tuple argnum -> one container trace)
                def fun(t):
                    a = list(xs)
                    for k, i in enumerate(S):
                        a[i] = t[k]
                    return P(*a, **kw)

                x0 = tuple(xs[i] for i in S)
                if is_jvp:
                    v = tuple(float(rng.uniform(0.5, 1.5)) for _ in S)
                    val, t = make_jvp(fun, x0)(v)
                    exp = sum(tp[i] * v[k] for k, i in enumerate(S) if i not in none_pos)
                    got = float(t)
                    if abs(got - exp) > 1e-12 * (1 + abs(exp)):
                        return viol("wrong_value", "jvp %r expected %r" % (got, exp))
                else:
                    vjp, val = make_vjp(fun, x0)
                    g = float(rng.uniform(0.5, 1.5))
                    r = vjp(g)
                    r_again = vjp(g)
                    if not bits_equal(onp.asarray([float(t) for t in r_again]), onp.asarray([float(t) for t in r])):
                        return viol("unstable_repeat", "second call of the VJP function returned %r, first %r" % (r_again, r))
                    # the repeated call logs a second application per argument
                    del LOG[len(LOG) - sum(1 for e in LOG if e[0] == "vjp_apply") // 2:]
                    if not isinstance(r, tuple) or len(r) != len(S):
                        return viol("wrong_structure", "vjp result %r" % (r,))
                    for k, i in enumerate(S):
                        exp = 0.0 if i in none_pos else g * tp[i]
                        if abs(float(r[k]) - exp) > 1e-12 * (1 + abs(exp)):
                            return viol("misrouted" if any(abs(float(r[k]) - g * tp[j]) < 1e-9 for j in range(n) if j != i) else "wrong_value", "argument %d received %r expected %r (partials %r)" % (i, r[k], exp, tp))
                        if i in none_pos and float(r[k]) != 0.0:
                            return viol("none_arg_nonzero", "argument %d registered None received %r" % (i, r[k]))
                if not bits_equal(onp.asarray(val), onp.asarray(y_plain)):
                    return viol("primal_mismatch", "%r vs %r" % (val, y_plain))
                # rule log: invoked once per differentiated argument, with the original values
                kind = "jvp" if is_jvp else "vjp_make"
                if not lin:
                    for i in S:
                        if i in none_pos:
                            continue
                        ent = [e for e in LOG if e[0] == kind and e[1] == i]
                        if len(ent) != 1:
                            return viol("rule_count", "rule for argument %d invoked %d times (log %s)" % (i, len(ent), [e[:2] for e in LOG]))
                        _, _, ans, args, kwargs = ent[0]
                        if not bits_equal(onp.asarray(ans), onp.asarray(y_plain)):
                            return viol("rule_ans", "rule got ans=%r, primitive output %r" % (ans, y_plain))
                        if tuple(float(a) for a in args) != tuple(xs):
                            return viol("rule_args", "rule got args=%r, original %r" % (args, xs))
                        if kwargs != kw:
                            return viol("rule_kwargs", "rule got kwargs=%r, original %r" % (kwargs, kw))
                        if not is_jvp:
                            ap = [e for e in LOG if e[0] == "vjp_apply" and e[1] == i]
                            if len(ap) != 1:
                                return viol("rule_count", "vjp closure for argument %d applied %d times in one pass" % (i, len(ap)))
                    extra = [e for e in LOG if e[0] == kind and e[1] not in S]
                    if extra:
                        return viol("rule_extra", "rule invoked for non-differentiated argument(s) %s" % sorted(set(e[1] for e in extra)))
            else:
                # arguments split over nested differentiations: mixed partial d^2P/dx_a dx_b
                a_, b_ = S[0], S[1]
                modes = split.split(".")  # outer.inner

                def inner(av):
                    def f_b(bv):
                        args = list(xs)
                        args[a_] = av
                        args[b_] = bv
                        return P(*args, **kw)

                    if modes[1] == "rev":
                        return make_vjp(f_b, xs[b_])[0](1.0)
                    return make_jvp(f_b, xs[b_])(1.0)[1]

                if modes[0] == "rev":
                    got = make_vjp(inner, xs[a_])[0](1.0)
                else:
                    got = make_jvp(inner, xs[a_])(1.0)[1]
                exp = mixed_partial(cs, xs, scale, a_, b_, lin)
                if abs(float(got) - exp) > 1e-12 * (1 + abs(exp)):
                    return viol("wrong_value", "mixed partial d2P/dx%d dx%d = %r expected %r" % (a_, b_, got, exp))
                for e in LOG:
                    if e[0] in ("vjp_make", "jvp"):
                        if tuple(float(t) for t in e[3]) != tuple(xs):
                            return viol("rule_args", "rule got args=%r, original %r" % (e[3], xs))
                        if not bits_equal(onp.asarray(e[2]), onp.asarray(y_plain)):
                            return viol("rule_ans", "rule got ans=%r vs %r" % (e[2], y_plain))
        except NotImplementedError as e:
            res["not_judged"]["unsupported_combination"] = res["not_judged"].get("unsupported_combination", 0) + 1
            res["sets"].setdefault("unsupported", set()).add("%s %s: %s" % (api, split, str(e)[:60]))
            return
        except Exception as e:
            return viol("exception:" + type(e).__name__, traceback.format_exc()[-500:])
    k = sig_key(sig)
    res["judged"][k] = res["judged"].get(k, 0) + 1
    res["counters"]["rule_log_entries"] = res["counters"].get("rule_log_entries", 0) + len(LOG)
    if res["evaluations"] % 150 == 1:
        res["samples"].append({"spec": {k: v for k, v in spec.items() if k != "seed"}, "log": [list(e[:2]) for e in LOG][:12]})


def run_missing_rule_cases(res):
    """A missing rule must raise: all three defvjp code paths (1, 2, >=3 differentiated args) and defjvp."""
    from autograd.core import make_jvp, make_vjp
    from autograd.extend import defjvp, defvjp, primitive

    for L in (1, 2, 3, 4):
        for missing in range(L):
            for mode in ("rev", "fwd", "norule_rev", "norule_fwd"):
                res["evaluations"] += 1
                sig = {"engine": "ext", "family": "missing_rule", "L": L, "missing": missing, "mode": mode}
                case = {"kind": "missing", "L": L, "missing": missing, "mode": mode}
                P = primitive(lambda *xs: sum(x * (i + 2) for i, x in enumerate(xs)))
                regs = [i for i in range(L) if i != missing]
                if mode == "rev":
                    defvjp(P, *[(lambda ans, *xs, i=i: lambda g: g * (i + 2)) for i in regs], argnums=regs)
                elif mode == "fwd":
                    defjvp(P, *[(lambda g, ans, *xs, i=i: g * (i + 2)) for i in regs], argnums=regs)
                x0 = tuple(0.5 + i for i in range(L))
                raised = None
                try:
                    with warnings.catch_warnings():
                        warnings.simplefilter("ignore")
                        if mode in ("rev", "norule_rev"):
                            r = make_vjp(lambda t: P(*[t[i] for i in range(L)]), x0)[0](1.0)
                        else:
                            r = make_jvp(lambda t: P(*[t[i] for i in range(L)]), x0)(x0)[1]
                except Exception as e:
                    raised = type(e).__name__
                if raised is None:
                    s = dict(sig, symptom="not_loud")
                    res["violations"].append({"sig": s, "case": case, "detail": "missing rule for argument %d did not raise; returned %r" % (missing, r)})
                    res["judged"][sig_key(s)] = 1
                else:
                    res["judged"][sig_key(sig)] = 1
                    res["sets"].setdefault("missing_rule_exceptions", set()).add(raised)


def run_registration_identity_cases(res):
    """Rules belong to the primitive OBJECT they were registered for: several primitives wrapped around one and the
    same raw callable (a def, a NumPy function, a bound method) carry independent rule sets (exact rule,
    straight-through rule, declared-zero rule, no rule at all), whatever the order of wrapping, registering and
    first use; and a registration made after a primitive was already differentiated replaces the earlier one."""
    import autograd.numpy as anp
    from autograd.core import make_jvp, make_vjp
    from autograd.extend import defjvp, defvjp, primitive

    def raw_def(x):
        return onp.sin(x)

    class _Holder:
        def meth(self, x):
            return onp.sin(x)

    raws = {"def": raw_def, "numpy_function": onp.sin, "bound_method": _Holder().meth, "lambda": (lambda x: onp.sin(x))}
    x0 = onp.array([0.3, -0.8, 1.9])
    g0 = onp.array([1.0, -2.0, 0.5])
    for rname, raw in raws.items():
        for order in ("wrap_all_then_register", "interleaved", "use_first_then_wrap_second"):
            res["evaluations"] += 1
            sig = {"engine": "ext", "family": "registration_identity", "raw": rname, "order": order}
            case = {"kind": "registration_identity", "raw": rname, "order": order}
            log = []
            try:
                with warnings.catch_warnings():
                    warnings.simplefilter("ignore")
                    reg_exact = lambda P: (defvjp(P, lambda ans, x: (log.append("exact.vjp"), lambda g: g * anp.cos(x))[1]), defjvp(P, lambda g, ans, x: (log.append("exact.jvp"), g * anp.cos(x))[1]))
                    reg_ste = lambda P: (defvjp(P, lambda ans, x: (log.append("ste.vjp"), lambda g: g)[1]), defjvp(P, lambda g, ans, x: (log.append("ste.jvp"), g)[1]))
                    reg_zero = lambda P: (defvjp(P, None), defjvp(P, None))
                    if order == "wrap_all_then_register":
                        Pe, Ps, Pz, Pn = primitive(raw), primitive(raw), primitive(raw), primitive(raw)
                        reg_exact(Pe), reg_ste(Ps), reg_zero(Pz)
                    elif order == "interleaved":
                        Ps = primitive(raw)
                        reg_ste(Ps)
                        Pe = primitive(raw)
                        Pz = primitive(raw)
                        reg_zero(Pz)
                        reg_exact(Pe)
                        Pn = primitive(raw)
                    else:
                        Pe = primitive(raw)
                        reg_exact(Pe)
                        make_vjp(Pe, x0)[0](g0)
                        make_jvp(Pe, x0)(g0)
                        del log[:]
                        Ps = primitive(raw)
                        reg_ste(Ps)
                        Pz = primitive(raw)
                        reg_zero(Pz)
                        Pn = primitive(raw)
                    distinct = len({id(Pe), id(Ps), id(Pz), id(Pn)}) == 4
                    out = {}
                    for nm, P in (("exact", Pe), ("ste", Ps), ("zero", Pz)):
                        del log[:]
                        out[nm + ".vjp"] = (make_vjp(P, x0)[0](g0), list(log))
                        del log[:]
                        out[nm + ".jvp"] = (make_jvp(P, x0)(g0)[1], list(log))
                    loud = []
                    for mode in ("rev", "fwd"):
                        try:
                            (make_vjp(Pn, x0)[0](g0) if mode == "rev" else make_jvp(Pn, x0)(g0))
                            loud.append(False)
                        except NotImplementedError:
                            loud.append(True)
            except Exception as e:
                res["violations"].append({"sig": dict(sig, symptom="exception:" + type(e).__name__), "case": case, "detail": traceback.format_exc()[-400:]})
                continue
            want = {"exact": g0 * onp.cos(x0), "ste": g0, "zero": onp.zeros(3)}
            bad = None
            if not distinct:
                bad = "primitive() handed out the same object for separate wrappings of one raw callable"
            for key, (val, lg) in out.items():
                nm, md = key.split(".")
                if bad:
                    break
                if not onp.allclose(val, want[nm], rtol=1e-13, atol=1e-13):
                    bad = "%s primitive, %s: result %r, its own rule gives %r (rules invoked: %s)" % (nm, md, val, want[nm], lg)
                elif nm != "zero" and lg != [key]:
                    bad = "%s primitive, %s: rules invoked %s, expected exactly [%s]" % (nm, md, lg, key)
            if not bad and not all(loud):
                bad = "the primitive without any rule did not raise (rev, fwd loud: %s)" % loud
            if bad:
                res["violations"].append({"sig": dict(sig, symptom="foreign_rule"), "case": case, "detail": bad})
            res["judged"][sig_key(sig)] = 1
    # (c) rules registered for a HIGHER argument only (new API with argnums=, deprecated .defvjp / .defgrad with
    # argnum=1): differentiating w.r.t. argument 0 - alone or jointly - raises, it is never a silent zero
    from autograd import grad as _grad
    from autograd.core import primitive as _old_primitive

    for api in ("defvjp_argnums_kw", "deprecated_defvjp", "deprecated_defgrad", "defvjp_argnums_generator", "defvjp_argnums_iter", "defvjp_argnums_numpy_ints", "defjvp_argnums_generator"):
        res["evaluations"] += 1
        sig = {"engine": "ext", "family": "higher_argument_only", "api": api}
        case = {"kind": "registration_identity", "api": api}
        raw2 = lambda x, y: x * x * y
        try:
            with warnings.catch_warnings():
                warnings.simplefilter("ignore")
                fwd = api.startswith("defjvp")
                if api == "defvjp_argnums_kw":
                    P2 = primitive(raw2)
                    defvjp(P2, lambda ans, x, y: lambda g: g * x * x, argnums=(1,))
                elif api == "deprecated_defvjp":
                    P2 = _old_primitive(raw2)
                    P2.defvjp(lambda g, ans, vs, gvs, x, y: g * x * x, argnum=1)
                elif api == "deprecated_defgrad":
                    P2 = _old_primitive(raw2)
                    P2.defgrad(lambda ans, x, y: lambda g: g * x * x, argnum=1)
                else:
                    # argnums= given as a one-shot iterable / NumPy integers: the rules still land on those arguments
                    P2 = primitive(raw2)
                    spell = {"defvjp_argnums_generator": (i for i in (1,)), "defvjp_argnums_iter": iter([1]), "defvjp_argnums_numpy_ints": onp.array([1]), "defjvp_argnums_generator": (i for i in (1,))}[api]
                    if fwd:
                        defjvp(P2, lambda g, ans, x, y: g * x * x, argnums=spell)
                    else:
                        defvjp(P2, lambda ans, x, y: lambda g: g * x * x, argnums=spell)
                if fwd:
                    d1 = make_jvp(lambda t: P2(3.0, t), 2.0)(1.0)[1]
                else:
                    d1 = _grad(P2, 1)(3.0, 2.0)
                loud = []
                for argn in ((0,), (0, 1)):
                    try:
                        if fwd:
                            make_jvp(lambda t: P2(t[0], t[1] if len(argn) > 1 else 2.0), (3.0, 2.0))((1.0, 1.0))
                        else:
                            _grad(P2, argn)(3.0, 2.0)
                        loud.append(False)
                    except (NotImplementedError, KeyError):
                        loud.append(True)
        except Exception as e:
            res["violations"].append({"sig": dict(sig, symptom="exception:" + type(e).__name__), "case": case, "detail": traceback.format_exc()[-400:]})
            continue
        if abs(float(d1) - 9.0) > 1e-12:
            res["violations"].append({"sig": dict(sig, symptom="rule_not_routed"), "case": case, "detail": "derivative w.r.t. the argument the rule was registered for: %r, the rule gives 9.0" % (d1,)})
        elif not all(loud):
            res["violations"].append({"sig": dict(sig, symptom="not_loud"), "case": case, "detail": "differentiating w.r.t. argument 0 (alone, jointly) of a primitive that only has a rule for argument 1 did not raise: %s" % loud})
        res["judged"][sig_key(sig)] = 1
    # (d) a user primitive whose VALUE is integer- or boolean-typed (spike / quantisation with a surrogate derivative):
    # its registered rules are invoked like anybody's, a missing rule raises
    for kind in ("integer_valued", "boolean_valued", "float_valued_control"):
        res["evaluations"] += 1
        sig = {"engine": "ext", "family": "nonfloat_valued_primitive", "value": kind}
        case = {"kind": "registration_identity", "value": kind}
        log2 = []
        try:
            with warnings.catch_warnings():
                warnings.simplefilter("ignore")
                rawq = {"integer_valued": lambda x: onp.floor(x).astype(onp.int64), "boolean_valued": lambda x: x > 0.5, "float_valued_control": lambda x: onp.floor(x)}[kind]
                Q = primitive(rawq)
                defvjp(Q, lambda ans, x: (log2.append("vjp"), lambda g: g * 0.25)[1])
                defjvp(Q, lambda g, ans, x: (log2.append("jvp"), g * 0.25)[1])
                xq = onp.array([0.3, 1.7, 2.2])
                r_ = make_vjp(lambda t: Q(t) * 2.0, xq)[0](onp.ones(3))
                t_ = make_jvp(lambda t: Q(t) * 2.0, xq)(onp.ones(3))[1]
                Qn = primitive(rawq)
                try:
                    make_vjp(lambda t: Qn(t) * 2.0, xq)[0](onp.ones(3))
                    loud_ = False
                except NotImplementedError:
                    loud_ = True
        except Exception as e:
            res["violations"].append({"sig": dict(sig, symptom="exception:" + type(e).__name__), "case": case, "detail": traceback.format_exc()[-400:]})
            continue
        if not (onp.allclose(r_, 0.5) and onp.allclose(t_, 0.5) and "vjp" in log2 and "jvp" in log2):
            res["violations"].append({"sig": dict(sig, symptom="rule_not_invoked"), "case": case, "detail": "registered surrogate rules of a %s primitive: reverse %r forward %r (rules give 0.5), rules invoked %s" % (kind, r_, t_, log2)})
        elif not loud_:
            res["violations"].append({"sig": dict(sig, symptom="not_loud"), "case": case, "detail": "a %s primitive without any rule did not raise under differentiation" % kind})
        res["judged"][sig_key(sig)] = 1
    # re-registration after the primitive has been differentiated once (both modes, both kinds of change)
    for change in ("replace_rule", "add_missing_argnum", "declare_zero"):
        res["evaluations"] += 1
        sig = {"engine": "ext", "family": "reregistration_after_use", "change": change}
        case = {"kind": "registration_identity", "change": change}
        try:
            with warnings.catch_warnings():
                warnings.simplefilter("ignore")
                P = primitive(lambda x, y: onp.sin(x) * y)
                defvjp(P, lambda ans, x, y: lambda g: g * anp.cos(x) * y)
                defjvp(P, lambda g, ans, x, y: g * anp.cos(x) * y)
                y0 = onp.array([2.0, 0.5, -1.0])
                r_old = make_vjp(lambda t: P(t, y0), x0)[0](g0)
                t_old = make_jvp(lambda t: P(t, y0), x0)(g0)[1]
                if change == "replace_rule":
                    defvjp(P, lambda ans, x, y: lambda g: g * 7.0)
                    defjvp(P, lambda g, ans, x, y: g * 7.0)
                    got = (make_vjp(lambda t: P(t, y0), x0)[0](g0), make_jvp(lambda t: P(t, y0), x0)(g0)[1])
                    want = (g0 * 7.0, g0 * 7.0)
                elif change == "add_missing_argnum":
                    defvjp(P, lambda ans, x, y: lambda g: g * anp.cos(x) * y, lambda ans, x, y: lambda g: g * anp.sin(x))
                    defjvp(P, lambda g, ans, x, y: g * anp.cos(x) * y, lambda g, ans, x, y: g * anp.sin(x))
                    got = (make_vjp(lambda t: P(x0, t), y0)[0](g0), make_jvp(lambda t: P(x0, t), y0)(g0)[1])
                    want = (g0 * onp.sin(x0), g0 * onp.sin(x0))
                else:
                    defvjp(P, None)
                    defjvp(P, None)
                    got = (make_vjp(lambda t: P(t, y0), x0)[0](g0), make_jvp(lambda t: P(t, y0), x0)(g0)[1])
                    want = (onp.zeros(3), onp.zeros(3))
        except Exception as e:
            res["violations"].append({"sig": dict(sig, symptom="exception:" + type(e).__name__), "case": case, "detail": traceback.format_exc()[-400:]})
            continue
        if not (onp.allclose(got[0], want[0], rtol=1e-13, atol=1e-13) and onp.allclose(got[1], want[1], rtol=1e-13, atol=1e-13)):
            res["violations"].append({"sig": dict(sig, symptom="stale_rule"), "case": case, "detail": "after %s: reverse %r forward %r, the rules registered last give %r" % (change, got[0], got[1], want[0])})
        res["judged"][sig_key(sig)] = 1


def run_deprecated_api_cases(res):
    """The pre-1.2 registration methods of `autograd.primitive` objects (defvjp(fn, argnum=), defgrad,
    defvjp_is_zero) in every order and split of calls: each must yield the same rules as one combined call."""
    import autograd
    import autograd.numpy as anp
    from autograd import grad

    x0, y0, z0 = 0.7, -1.3, 2.1
    raw = lambda x, y, z: x * onp.sin(y) + y * z * z
    true = {0: onp.sin(y0), 1: x0 * onp.cos(y0) + z0 * z0, 2: 2 * y0 * z0}
    mk = {0: lambda g, ans, vs, gvs, x, y, z: g * anp.sin(y), 1: lambda g, ans, vs, gvs, x, y, z: g * (x * anp.cos(y) + z * z), 2: lambda g, ans, vs, gvs, x, y, z: g * 2 * y * z}
    mkg = {0: lambda ans, x, y, z: lambda g: g * anp.sin(y), 1: lambda ans, x, y, z: lambda g: g * (x * anp.cos(y) + z * z), 2: lambda ans, x, y, z: lambda g: g * 2 * y * z}
    bucket = lambda x, e, s: onp.floor(x / e) * e * onp.sign(s)  # piecewise constant in all three
    for order in itertools.permutations(range(3)):
        for api in ("defvjp", "defgrad"):
            res["evaluations"] += 1
            sig = {"engine": "ext", "family": "deprecated_api", "api": api, "order": list(order)}
            case = {"kind": "deprecated", "api": api, "order": list(order)}
            try:
                with warnings.catch_warnings():
                    warnings.simplefilter("ignore")
                    p = autograd.primitive(raw)
                    bad = None
                    for k, i in enumerate(order):
                        (p.defvjp if api == "defvjp" else p.defgrad)((mk if api == "defvjp" else mkg)[i], argnum=i)
                        # rules registered so far work, also jointly
                        done = sorted(order[: k + 1])
                        for j in done:
                            r = grad(p, j)(x0, y0, z0)
                            if abs(float(r) - true[j]) > 1e-12:
                                bad = "after registering %s: gradient w.r.t. argument %d is %r, expected %r" % (list(order[: k + 1]), j, r, true[j])
                        rj = grad(lambda t: p(t[0] if 0 in done else x0, t[1] if 1 in done else y0, t[2] if 2 in done else z0))((x0, y0, z0))
                        for j in done:
                            if abs(float(rj[j]) - true[j]) > 1e-12:
                                bad = "joint gradient after registering %s: entry %d is %r, expected %r" % (list(order[: k + 1]), j, rj[j], true[j])
                    if bad:
                        res["violations"].append({"sig": dict(sig, symptom="wrong_value"), "case": case, "detail": bad})
                        continue
            except Exception as e:
                res["violations"].append({"sig": dict(sig, symptom="exception:" + type(e).__name__), "case": case, "detail": traceback.format_exc()[-400:]})
                continue
            res["judged"][sig_key(sig)] = 1
    # defvjp_is_zero: one call with all positions, or one call per position in any order
    splits = [[(0, 1, 2)], [(0,), (1,), (2,)], [(2,), (0,), (1,)], [(1,), (0, 2)], [(0, 2), (1,)], [(1,), (2,), (0,)], [(0,), (0, 1), (2,)]]
    for sp in splits:
        res["evaluations"] += 1
        sig = {"engine": "ext", "family": "deprecated_api", "api": "defvjp_is_zero", "split": [list(t) for t in sp]}
        case = {"kind": "deprecated", "api": "defvjp_is_zero", "split": [list(t) for t in sp]}
        try:
            with warnings.catch_warnings():
                warnings.simplefilter("ignore")
                p = autograd.primitive(bucket)
                for t in sp:
                    p.defvjp_is_zero(t)
                bad = None
                for j in range(3):
                    r = grad(lambda *a: p(*a) * 1.0 + a[j] * 0.0 + 3.0 * a[j], j)(2.3, 0.5, -1.2)
                    if float(r) != 3.0:
                        bad = "argument %d: %r, expected exactly 3.0 (zero through the primitive)" % (j, r)
                rj = grad(lambda t: p(t[0], t[1], t[2]) * 1.0 + t[0] + 2.0 * t[1] + 3.0 * t[2])((2.3, 0.5, -1.2))
                if [float(v) for v in rj] != [1.0, 2.0, 3.0]:
                    bad = "joint gradient %r, expected (1, 2, 3)" % (rj,)
            if bad:
                res["violations"].append({"sig": dict(sig, symptom="wrong_value"), "case": case, "detail": bad})
                continue
        except Exception as e:
            res["violations"].append({"sig": dict(sig, symptom="exception:" + type(e).__name__), "case": case, "detail": traceback.format_exc()[-400:]})
            continue
        res["judged"][sig_key(sig)] = 1


def run_fixed_point_cases(res):
    """autograd.misc.fixed_points.fixed_point (a bundled primitive with a hand-written, itself iterative VJP):
    derivatives of order 1-3 of fixed points with closed forms, alone and nested with closures over enclosing
    variables, in the mode combinations reverse mode supports."""
    import autograd.numpy as anp
    from autograd import grad
    from autograd.misc.fixed_points import fixed_point

    dist = lambda x, y: anp.max(anp.abs(x - y))

    def fp_sqrt(a):
        # Newton iteration for sqrt(a): x -> (x + a/x)/2
        return fixed_point(lambda p: (lambda x: 0.5 * (x + p / x)), a, 1.0, dist, 1e-13)

    def fp_lin(ab):
        # x = a*cos-free affine map: x -> 0.3*x*a + b  has the fixed point b / (1 - 0.3 a)
        return fixed_point(lambda p: (lambda x: 0.3 * p[0] * x + p[1]), ab, 0.0 * ab[1], dist, 1e-14)

    cases = {
        "sqrt:d1": (lambda: grad(fp_sqrt)(2.3), 0.5 * 2.3 ** -0.5),
        "sqrt:d2": (lambda: grad(grad(fp_sqrt))(2.3), -0.25 * 2.3 ** -1.5),
        "sqrt:d3": (lambda: grad(grad(grad(fp_sqrt)))(2.3), 0.375 * 2.3 ** -2.5),
        "sqrt:closure": (lambda: grad(lambda c: c * grad(lambda a: fp_sqrt(a * c))(1.7))(1.3), None),
        # (the parameter must carry every traced dependence: a map that closes over an enclosing tracer, or a raw
        # Python tuple of tracers as parameter, is outside what the primitive can see - not generated)
        "sqrt:outer_through_parameter": (lambda: grad(lambda c: grad(lambda a: fixed_point(lambda p: (lambda x: 0.5 * (x + p[0] * p[1] / x)), anp.array([a, c]), 1.0, dist, 1e-13))(1.7) * c)(1.3), None),
        "lin:d_a": (lambda: grad(lambda a: fp_lin(anp.array([a, 0.7])))(1.2), 0.7 * 0.3 / (1 - 0.36) ** 2),
        "lin:d_a_d_b": (lambda: grad(lambda b: grad(lambda a: fp_lin(anp.array([a, b])))(1.2))(0.7), 0.3 / (1 - 0.36) ** 2),
        "vector:d1": (lambda: grad(lambda a: anp.sum(fixed_point(lambda p: (lambda x: 0.5 * (x + p / x)), a, onp.ones(3), dist, 1e-13) * onp.array([1.0, 2.0, 3.0])))(onp.array([1.5, 2.5, 0.8])), onp.array([1.0, 2.0, 3.0]) * 0.5 * onp.array([1.5, 2.5, 0.8]) ** -0.5),
    }
    # closed forms for the closure cases: d/dc [c * d/da sqrt(a c)|a=1.7] and d/dc [c * d/da sqrt(a c)]
    c0, a1 = 1.3, 1.7
    expr = lambda c: c * 0.5 * (a1 * c) ** -0.5 * c
    h = 1e-6
    cases["sqrt:closure"] = (cases["sqrt:closure"][0], (expr(c0 + h) - expr(c0 - h)) / (2 * h))
    cases["sqrt:outer_through_parameter"] = (cases["sqrt:outer_through_parameter"][0], (expr(c0 + h) - expr(c0 - h)) / (2 * h))
    for name, (thunk, ref) in cases.items():
        res["evaluations"] += 1
        sig = {"engine": "ext", "family": "fixed_point", "case": name}
        case = {"kind": "fixed_point", "case": name}
        try:
            with warnings.catch_warnings():
                warnings.simplefilter("ignore")
                got = thunk()
        except NotImplementedError:
            res["judged"][sig_key(dict(sig, outcome="raised"))] = 1
            continue
        except Exception as e:
            res["violations"].append({"sig": dict(sig, symptom="exception:" + type(e).__name__), "case": case, "detail": traceback.format_exc()[-400:]})
            continue
        if find_boxes(got):
            res["violations"].append({"sig": dict(sig, symptom="tracer_leak"), "case": case, "detail": "%r" % (got,)})
            continue
        if onp.shape(got) != onp.shape(ref) or not onp.allclose(onp.asarray(got, dtype=float), ref, rtol=2e-6, atol=1e-8):
            res["violations"].append({"sig": dict(sig, symptom="wrong_value"), "case": case, "detail": "%r, closed form %r" % (got, ref)})
            continue
        res["judged"][sig_key(sig)] = 1


def run_container_output_cases(res):
    """User primitives whose OUTPUT is a tuple / list / dict, registered through def_linear, defjvp (callables and
    "same") and defvjp, with one and with several arguments differentiated in the same trace, both modes."""
    import autograd.builtins as ab
    import autograd.numpy as anp
    from autograd.core import make_jvp, make_vjp
    from autograd.extend import def_linear, defjvp, defvjp, primitive

    x0, y0 = onp.array([0.7, -1.3, 2.1]), onp.array([0.4, 0.9, -0.6])
    w = (onp.array([1.0, -2.0, 0.5]), onp.array([0.3, 0.8, -1.1]))
    vx, vy = onp.array([0.2, 0.5, -0.4]), onp.array([-0.7, 0.1, 0.3])
    # bilinear tuple-valued map and its composition of built-ins
    raw_t = lambda x, y: (x * y, 2.0 * x * y[::-1])
    ref_t = lambda x, y: ab.tuple((x * y, 2.0 * x * y[::-1]))
    raw_l = lambda x, y: [x * y, 2.0 * x * y[::-1]]
    raw_d = lambda x, y: {"p": x * y, "q": 2.0 * x * y[::-1]}
    score = lambda out: anp.sum(out[0] * w[0]) + anp.sum(out[1] * w[1])
    score_d = lambda out: anp.sum(out["p"] * w[0]) + anp.sum(out["q"] * w[1])

    def mk(api, raw):
        P = primitive(raw)
        if api == "def_linear":
            def_linear(P)
        elif api == "defjvp_same":
            defjvp(P, "same", "same")
        else:
            tup = (lambda a, b: type(raw(x0, y0))((a, b))) if not isinstance(raw(x0, y0), dict) else (lambda a, b: {"p": a, "q": b})
            defjvp(P, lambda g, ans, x, y: tup(g * y, 2.0 * g * y[::-1]), lambda g, ans, x, y: tup(x * g, 2.0 * x * g[::-1]))
        get = (lambda g, k: g[k]) if not isinstance(raw(x0, y0), dict) else (lambda g, k: g["pq"[k]])
        defvjp(P, lambda ans, x, y: lambda g: get(g, 0) * y + 2.0 * get(g, 1) * y[::-1], lambda ans, x, y: lambda g: get(g, 0) * x + (2.0 * get(g, 1) * x)[::-1])
        return P

    ref_fwd = {}
    ref_fwd["x"] = make_jvp(lambda x: score(ref_t(x, y0)), x0)(vx)[1]
    ref_fwd["y"] = make_jvp(lambda y: score(ref_t(x0, y)), y0)(vy)[1]
    ref_fwd["xy"] = make_jvp(lambda t: score(ref_t(t[0], t[1])), (x0, y0))((vx, vy))[1]
    ref_fwd["same"] = make_jvp(lambda x: score(ref_t(x, x)), x0)(vx)[1]
    ref_rev = make_vjp(lambda t: score(ref_t(t[0], t[1])), (x0, y0))[0](1.0)
    for kind, raw, sc in (("tuple", raw_t, score), ("list", raw_l, score), ("dict", raw_d, score_d)):
        for api in ("def_linear", "defjvp_same", "defjvp"):
            res["evaluations"] += 1
            sig = {"engine": "ext", "family": "container_output", "out": kind, "api": api}
            case = {"kind": "container_output", "out": kind, "api": api}
            try:
                with warnings.catch_warnings():
                    warnings.simplefilter("ignore")
                    P = mk(api, raw)
                    got = {
                        "x": make_jvp(lambda x: sc(P(x, y0)), x0)(vx)[1],
                        "y": make_jvp(lambda y: sc(P(x0, y)), y0)(vy)[1],
                        "xy": make_jvp(lambda t: sc(P(t[0], t[1])), (x0, y0))((vx, vy))[1],
                        "same": make_jvp(lambda x: sc(P(x, x)), x0)(vx)[1],
                    }
                    rev = make_vjp(lambda t: sc(P(t[0], t[1])), (x0, y0))[0](1.0)
            except NotImplementedError:
                res["judged"][sig_key(dict(sig, outcome="raised"))] = 1
                continue
            except Exception as e:
                res["violations"].append({"sig": dict(sig, symptom="exception:" + type(e).__name__), "case": case, "detail": traceback.format_exc()[-400:]})
                continue
            bad = [k for k in got if abs(float(got[k]) - float(ref_fwd[k])) > 1e-12 * (1 + abs(float(ref_fwd[k])))]
            if bad:
                res["violations"].append({"sig": dict(sig, symptom="wrong_value", mode="fwd"), "case": case, "detail": "tangent for differentiated set %s: %r, built-in composition %r" % (bad[0], got[bad[0]], ref_fwd[bad[0]])})
                continue
            if not all(onp.allclose(a, b, rtol=1e-12, atol=1e-12) for a, b in zip(rev, ref_rev)):
                res["violations"].append({"sig": dict(sig, symptom="wrong_value", mode="rev"), "case": case, "detail": "%r vs %r" % (rev, ref_rev)})
                continue
            res["judged"][sig_key(sig)] = 1


def run_none_shape_cases(res):
    """None-registered arguments whose shape differs from the output's: the zero must live in the
    argument's space (reverse) / the output's space (forward)."""
    import autograd.numpy as anp
    from autograd.core import make_jvp, make_vjp
    from autograd.extend import defjvp, defvjp, primitive

    shapes = [((), (3,)), ((3,), (2, 3)), ((2, 1), (2, 3)), ((), (2, 2)), ((3,), ())]
    for (sa, sb) in shapes:
        for api in ("defvjp", "defjvp"):
            res["evaluations"] += 1
            sig = {"engine": "ext", "family": "none_shape", "api": api, "a": list(sa), "b": list(sb)}
            case = {"kind": "none_shape", "api": api, "a": list(sa), "b": list(sb)}
            a0 = onp.ones(sa) * 1.5 if sa else 1.5
            b0 = onp.ones(sb) * 0.5 if sb else 0.5
            Q = primitive(lambda a, b: onp.sum(a) * b + onp.sum(a) * 0.0)
            out_shape = onp.shape(Q(a0, b0))
            try:
                with warnings.catch_warnings():
                    warnings.simplefilter("ignore")
                    if api == "defvjp":
                        defvjp(Q, None, lambda ans, a, b: lambda g: g * anp.sum(a))
                        r = make_vjp(lambda t: Q(t[0], t[1]), (a0, b0))[0](onp.ones(out_shape) if out_shape else 1.0)
                        bad = onp.shape(r[0]) != onp.shape(a0) or onp.any(onp.asarray(r[0]) != 0) or onp.shape(r[1]) != onp.shape(b0)
                        got = "zero for None argument has shape %s (argument %s); other %s (argument %s)" % (onp.shape(r[0]), onp.shape(a0), onp.shape(r[1]), onp.shape(b0))
                    else:
                        defjvp(Q, None, lambda g, ans, a, b: g * onp.sum(a))
                        t_a = make_jvp(lambda a: Q(a, b0), a0)(onp.ones(sa) if sa else 1.0)[1]
                        t_ab = make_jvp(lambda t: Q(t[0], t[1]), (a0, b0))((onp.ones(sa) if sa else 1.0, onp.ones(sb) if sb else 1.0))[1]
                        bad = onp.shape(t_a) != out_shape or onp.any(onp.asarray(t_a) != 0) or onp.shape(t_ab) != out_shape or not onp.allclose(t_ab, onp.sum(a0) * onp.ones(out_shape))
                        got = "tangent through a None argument has shape %s (output %s); joint tangent %s" % (onp.shape(t_a), out_shape, common.brief(onp.asarray(t_ab)))
            except Exception as e:
                s2 = dict(sig, symptom="exception:" + type(e).__name__)
                res["violations"].append({"sig": s2, "case": case, "detail": traceback.format_exc()[-300:]})
                continue
            if bad:
                s2 = dict(sig, symptom="none_arg_wrong_space")
                res["violations"].append({"sig": s2, "case": case, "detail": got})
                continue
            res["judged"][sig_key(sig)] = 1


def run_checkpoint_case(res, rng, i):
    import autograd.numpy as anp
    from autograd.core import make_vjp
    from autograd.differential_operators import checkpoint, grad
    from .graph import RAW_USER, user_prims

    res["evaluations"] += 1
    U = user_prims()
    prog = programs.gen_program(rng, n_ops=int(rng.choice([3, 6, 10])), shape=[(3,), (2, 2)][i % 2], p_dead=0.1, p_multi=0.3, families=("unary", "binary", "alias", "sparse", "reduce", "user"))
    x = rng.uniform(0.3, 1.2, size=tuple(prog["shape"])) * rng.choice([-1.0, 1.0], size=tuple(prog["shape"]))
    if not programs.well_scaled(prog, x, RAW_USER, bound=1e3):
        res["not_judged"]["ill_scaled"] = res["not_judged"].get("ill_scaled", 0) + 1
        return
    variant = ["plain", "nested", "kwargs", "two_args", "inside_graph", "ignored_arg", "inner_grad_ignored_arg", "second_of_two", "last_two_of_three", "constant_first", "zero_cotangent_point"][i % 11]
    st = programs.structure_signature(prog)
    sig = {"engine": "ext", "family": "checkpoint", "variant": variant, "ops": st["ops"]}
    case = {"kind": "checkpoint", "prog": programs.enc_program(prog), "x": enc(x), "variant": variant}
    base = lambda t, s=1.0: programs.interpret(prog, t, anp, U) * s
    if variant == "plain":
        f, fc = base, checkpoint(base)
        call = lambda fn: (lambda t: fn(t))
    elif variant == "nested":
        f, fc = base, checkpoint(lambda t, s=1.0: checkpoint(base)(t) * s)
        call = lambda fn: (lambda t: fn(t))
    elif variant == "kwargs":
        f, fc = base, checkpoint(base)
        call = lambda fn: (lambda t: fn(t, s=1.3))
    elif variant == "two_args":
        f2 = lambda t, u: programs.interpret(prog, t * anp.sin(u), anp, U)
        f, fc = f2, checkpoint(f2)
        call = lambda fn: (lambda t: fn(t, t * 0.5 + 0.1))
    elif variant == "ignored_arg":
        # a (traced) argument the function never uses
        f3 = lambda t, u: programs.interpret(prog, t, anp, U)
        f, fc = f3, checkpoint(f3)
        call = lambda fn: (lambda t: fn(t, anp.cos(t)) + anp.sum(t * t))
    elif variant == "inner_grad_ignored_arg":
        # the checkpointed function is differentiated by an inner grad whose own variable reaches both
        # arguments, the enclosing variable as well; the second argument is ignored by the function
        f3 = lambda t, u: programs.interpret(prog, t, anp, U)
        f, fc = f3, checkpoint(f3)
        call = lambda fn: (lambda t: anp.sum(grad(lambda xx: fn(xx * anp.sin(t), xx + t))(t * 0.7 + 0.2) ** 2) + anp.sum(t * t))
    elif variant in ("second_of_two", "last_two_of_three", "constant_first"):
        # only a NON-PREFIX subset of the checkpointed function's positional arguments depends on the variable
        c0 = rng.uniform(0.5, 1.5, size=tuple(prog["shape"]))
        f4 = lambda a, b, c=1.0: programs.interpret(prog, b * anp.sin(c) + 0.1 * a, anp, U) + anp.sum(a * b)
        f, fc = f4, checkpoint(f4)
        if variant == "second_of_two":
            call = lambda fn: (lambda t: fn(c0, t))
        elif variant == "last_two_of_three":
            call = lambda fn: (lambda t: fn(c0, t, anp.cos(t) + 1.5))
        else:
            call = lambda fn: (lambda t: fn(2.0 * c0, t * 1.0, 0.7) + fn(c0, anp.tanh(t), t))
    elif variant == "zero_cotangent_point":
        # the checkpointed block multiplied by a factor that is exactly ZERO at the evaluation point (its incoming
        # cotangent vanishes there but depends on the variable): higher derivatives keep the g' f' terms
        f, fc = base, checkpoint(base)
        call = lambda fn: (lambda t: anp.sum((t - x) * 1.0) * fn(t) + anp.sum((t - x) ** 2) * fn(t * 1.0))
    else:
        f, fc = base, checkpoint(base)
        call = lambda fn: (lambda t: anp.tanh(fn(anp.sin(t) * 1.1)) + anp.sum(t))

    def viol(symptom, detail):
        s = dict(sig, symptom=symptom)
        res["violations"].append({"sig": s, "case": case, "detail": detail})
        res["judged"][sig_key(s)] = res["judged"].get(sig_key(s), 0) + 1

    with warnings.catch_warnings():
        warnings.simplefilter("ignore")
        try:
            F, Fc = call(f), call(fc)
            v0, v1 = F(x), Fc(x)
            if not bits_equal(onp.asarray(v0), onp.asarray(v1)):
                return viol("primal_mismatch", "checkpoint changes the value: %r vs %r" % (v1, v0))
            d1 = lambda fn: grad(fn)
            d2 = lambda fn: grad(lambda t: anp.sum(grad(fn)(t) * onp.arange(1, x.size + 1).reshape(x.shape)))
            d3 = lambda fn: grad(lambda t: anp.sum(d2(fn)(t) * onp.cos(onp.arange(x.size)).reshape(x.shape)))
            for order, d in ((1, d1), (2, d2), (3, d3)):
                if order == 3 and st["n_ops"] > 6:
                    continue
                a, b = d(F)(x), d(Fc)(x)
                if find_boxes(b):
                    return viol("tracer_leak", "order %d" % order)
                if onp.shape(a) != onp.shape(b) or not onp.allclose(a, b, rtol=1e-12, atol=1e-12 * (1 + float(onp.max(onp.abs(a))))):
                    return viol("wrong_value", "order-%d reverse-mode derivative differs under checkpoint: max dev %r" % (order, float(onp.max(onp.abs(onp.asarray(a) - onp.asarray(b)))) if onp.shape(a) == onp.shape(b) else "shape"))
                res["counters"]["checkpoint_order%d" % order] = res["counters"].get("checkpoint_order%d" % order, 0) + 1
        except Exception as e:
            return viol("exception:" + type(e).__name__, traceback.format_exc()[-500:])
    res["judged"][sig_key(sig)] = res["judged"].get(sig_key(sig), 0) + 1


def enumerate_specs(tier):
    nmax = 4 if tier == "quick" else 5
    specs = []
    for n in range(1, nmax + 1):
        subsets = [s for k in range(1, n + 1) for s in itertools.combinations(range(n), k)]
        for api in APIS_VJP + APIS_JVP:
            for S in subsets:
                for kw in (False, True):
                    none_pos = ()
                    if api in ("defvjp_none", "defjvp_none"):
                        for np_ in [(S[0],), (S[-1],)] + ([tuple(i for i in range(n) if i not in S)] if len(S) < n else []):
                            specs.append({"api": api, "n": n, "S": list(S), "split": "flat", "kw": kw, "none_pos": list(np_)})
                        continue
                    specs.append({"api": api, "n": n, "S": list(S), "split": "flat", "kw": kw})
                if len(S) == 2:
                    for split in ("rev.rev", "fwd.rev", "rev.fwd", "fwd.fwd"):
                        # the inner/outer modes need both rule kinds: use a primitive with both tables? here each
                        # api provides one table, so inner and outer mode must match that table
                        want = "fwd" if api in APIS_JVP else "rev"
                        if split != want + "." + want:
                            continue
                        if api in ("defvjp_none", "defjvp_none"):
                            continue
                        specs.append({"api": api, "n": n, "S": list(S), "split": split, "kw": True})
                        specs.append({"api": api, "n": n, "S": list(S)[::-1], "split": split, "kw": False})
    for k, s in enumerate(specs):
        s["seed"] = [k, 31]
    return specs


def run_shard(pid, tier, seed, idx, n):
    common.setup_repo()
    res = _new_result()
    specs = enumerate_specs(tier)
    res["info"]["contract_specs"] = len(specs)
    for i in range(idx, len(specs), n):
        s = dict(specs[i])
        s["seed"] = [seed] + s["seed"]
        try:
            run_contract_case(res, s)
        except Exception:
            res["not_judged"]["harness_error"] = res["not_judged"].get("harness_error", 0) + 1
            res["sets"].setdefault("harness_errors", set()).add(traceback.format_exc()[-400:])
    if idx == 0:
        run_missing_rule_cases(res)
    if idx == 1 % n:
        run_none_shape_cases(res)
        run_deprecated_api_cases(res)
        run_registration_identity_cases(res)
        run_fixed_point_cases(res)
        run_container_output_cases(res)
    ncp = 400 if tier == "quick" else 6000
    for i in range(idx, ncp, n):
        rng = onp.random.Generator(onp.random.PCG64([seed, i, 37]))
        try:
            run_checkpoint_case(res, rng, i)
        except Exception:
            res["not_judged"]["harness_error"] = res["not_judged"].get("harness_error", 0) + 1
            res["sets"].setdefault("harness_errors", set()).add(traceback.format_exc()[-400:])
    res["sets"] = {k: sorted(v) for k, v in res["sets"].items()}
    return res


def replay(pid, case):
    common.setup_repo()
    res = _new_result()
    k = case["kind"]
    if k == "contract":
        run_contract_case(res, case["spec"])
    elif k == "missing":
        run_missing_rule_cases(res)
        res["violations"] = [v for v in res["violations"] if v["case"] == case]
    elif k == "none_shape":
        run_none_shape_cases(res)
        res["violations"] = [v for v in res["violations"] if v["case"] == case]
    elif k == "container_output":
        run_container_output_cases(res)
        res["violations"] = [v for v in res["violations"] if v["case"] == case]
    elif k == "fixed_point":
        run_fixed_point_cases(res)
        res["violations"] = [v for v in res["violations"] if v["case"] == case]
    elif k == "registration_identity":
        run_registration_identity_cases(res)
        res["violations"] = [v for v in res["violations"] if v["case"] == case]
    elif k == "deprecated":
        run_deprecated_api_cases(res)
        res["violations"] = [v for v in res["violations"] if v["case"] == case]
    else:
        from ..common import dec
        import autograd.numpy as anp
        from autograd.differential_operators import checkpoint, grad
        from .graph import user_prims

        prog = programs.dec_program(case["prog"])
        x = dec(case["x"])
        base = lambda t: programs.interpret(prog, t, anp, user_prims())
        a, b = grad(base)(x), grad(checkpoint(base))(x)
        sig = {"engine": "ext", "family": "checkpoint", "variant": case["variant"]}
        if not onp.allclose(a, b, rtol=1e-12, atol=1e-12):
            res["violations"].append({"sig": dict(sig, symptom="wrong_value"), "case": case, "detail": "grad differs"})
        else:
            res["judged"][sig_key(sig)] = 1
    return res


def post(pid, tier, agg):
    out = []
    if agg["not_judged"].get("harness_error", 0) > 0:
        out.append("harness errors: %d" % agg["not_judged"]["harness_error"])
    if agg["counters"].get("rule_log_entries", 0) < 500:
        out.append("rule logs empty: user rules were not invoked")
    if agg["counters"].get("checkpoint_order2", 0) < 50:
        out.append("checkpoint order-2 comparisons missing")
    return out
