"""Engine `graph`: generated dataflow programs under the node/pass/accumulation probes.

C03: chain rule over arbitrary graphs; exactly-once / consumers-first / dead-never / conservation.
C10: no writes to foreign memory; VJP/JVP closures reusable in any call history.
C11: indexing gradients (scatter oracle) and sparse/dense accumulation in any order."""
import itertools
import time
import traceback
import warnings

import numpy as onp

from .. import common
from ..common import bits_equal, dec, enc, fd_directional, find_boxes, pair, realify, sig_key, unrealify, vhash
from ..gen import indices, programs
from ..probes import PROBES

LEVEL = "exploration"
RULE = {
    "C03": "Random dataflow programs (5-60 ops over smooth unary/binary ops, alias chains, gathers, reductions, value-steered if/while/recursion/closures, user-defined logging primitives; fan-out, multi-edges f(a,a), dead branches) + random explicit DAGs fed to autograd.util.toposort; guard idioms (a where / select / index selection keeping a singular branch away from its singular points: infinite cotangents at unselected entries, finite analytic gradient) and graphs of 1500-3000 sequential operations (chains, diamond ladders, dead branches) against the hand-written derivative recursion. A program is non-trivial iff its output depends on x, autograd returned a gradient, the FD reference was self-consistent and the recorded backward pass contained >= 3 rule applications. distinct = distinct structural signatures (op set, #ops, multi-edges, max fan-out, dead ops).",
    "C10": "(One program in twenty runs on buffers of more than 2**16 elements, without full Jacobians.) (Catalogue in closure-repeat mode: same / different cotangents, and a fresh closure first called with all-zero and half-zero cotangents, each answer bitwise equal to a fresh closure's.) Random programs with alias chains at/below the end node, fan-in, sparse/dense mixes (a quarter with a single-precision argument among double-precision constants and cotangents of the output's own or a wider precision); each run with frozen (writeable=False) and with writable hashed foreign arrays; VJP/JVP closures called in generated histories (same g twice, different g, interleaved closures, jacobian) and compared bitwise with fresh single calls. Non-trivial iff >= 3 closure calls were compared and >= 1 accumulation with fan-in happened. distinct = distinct (program structure, history) signatures.",
    "C11": "Index expressions of every NumPy kind (incl. array indices spelled as tuples / lists inside the index tuple) on arrays of rank 0-4 (pre-validated on NumPy) judged against the exact bincount scatter oracle in both modes (also with inf / NaN cotangent entries: only the positions those entries were read from may become non-finite; the caller's index object is hashed before and after), and mixing programs with k sparse and m dense uses of one value in generated creation/association orders (values of rank 0-3 incl. size-1, sparse uses linear or quadratic, optionally through a sibling that shares its first cotangent - constant or itself a function of x) judged against the analytic dense sum at first order and, with the accumulation running under an enclosing differentiation, against the FD of the gradient (reverse over reverse, forward over reverse); an exception from autograd on a program NumPy runs is a violation. Non-trivial iff the index selects >= 1 element. distinct = distinct (index class, rank) resp. (k, m, arrival pattern) signatures.",
}
ASSUMPTIONS = {
    "C03": ["rule-application events come from wrapping VJPNode.__init__/backward_pass (probe attachment recorded); value verdicts are at the API boundary against FD of the same op list on raw NumPy"],
    "C10": ["a write that restores the original bits before returning is invisible to hashing (frozen arrays still fault on it)"],
    "C11": ["expected scatter = bincount over arange(size).reshape(shape)[idx]; independent of numpy.add.at"],
}


def nshards(pid, tier):
    return 16


# ---------------------------------------------------------------- user logging primitives

_USER = {}
LOG = []


def user_prims():
    if _USER:
        return _USER
    common.setup_repo()
    from autograd.extend import defjvp, defvjp, defvjp_argnums, primitive

    @primitive
    def log_scale(a, c, tag):
        return a * c

    def mk_scale(ans, a, c, tag):
        LOG.append(("make", tag))

        def vjp(g):
            LOG.append(("apply", tag))
            return c * g

        return vjp

    defvjp(log_scale, mk_scale)
    defjvp(log_scale, lambda g, ans, a, c, tag: c * g)

    @primitive
    def log_mul(a, b, tag):
        return a * b

    def mk_mul(argnums, ans, args, kwargs):
        a, b, tag = args
        LOG.append(("make", tag))

        def vjp(g):
            LOG.append(("apply", tag))
            return tuple((b * g if i == 0 else a * g) for i in argnums)

        return vjp

    defvjp_argnums(log_mul, mk_mul)
    defjvp(log_mul, lambda g, ans, a, b, tag: g * b, lambda g, ans, a, b, tag: a * g)
    @primitive
    def log_tri(a, b, c, tag):
        return a * b + c * a

    # three differentiable operands registered through defvjp: exercises its generic (L >= 3) code path
    def t0(ans, a, b, c, tag):
        LOG.append(("make", tag))
        return lambda g: (LOG.append(("apply", tag)), g * (b + c))[1]

    defvjp(log_tri, t0, lambda ans, a, b, c, tag: lambda g: g * a, lambda ans, a, b, c, tag: lambda g: g * a)
    defjvp(log_tri, lambda g, ans, a, b, c, tag: g * (b + c), lambda g, ans, a, b, c, tag: g * a, lambda g, ans, a, b, c, tag: g * a)
    @primitive
    def log_ident(a, tag):
        # hands its argument back unchanged (the very same object): still one operation of the graph
        return a

    def mk_ident(ans, a, tag):
        LOG.append(("make", tag))
        return lambda g: (LOG.append(("apply", tag)), g)[1]

    defvjp(log_ident, mk_ident)
    defjvp(log_ident, lambda g, ans, a, tag: g)
    _USER.update({"log_scale": log_scale, "log_mul": log_mul, "log_tri": log_tri, "log_ident": log_ident})
    return _USER


RAW_USER = {"log_scale": lambda a, c, tag: a * c, "log_mul": lambda a, b, tag: a * b, "log_tri": lambda a, b, c, tag: a * b + c * a, "log_ident": lambda a, tag: a}


def _new_result():
    return {"evaluations": 0, "judged": {}, "violations": [], "not_judged": {}, "counters": {}, "sets": {}, "samples": [], "info": {}}


def _nj(res, reason):
    res["not_judged"][reason] = res["not_judged"].get(reason, 0) + 1


def _ok(res, sig):
    k = sig_key(sig)
    res["judged"][k] = res["judged"].get(k, 0) + 1


def _viol(res, sig, symptom, case, detail):
    s = dict(sig)
    s["symptom"] = symptom
    res["violations"].append({"sig": s, "case": case, "detail": detail})
    k = sig_key(s)
    res["judged"][k] = res["judged"].get(k, 0) + 1


def _cnt(res, k, n=1):
    res["counters"][k] = res["counters"].get(k, 0) + n


# ================================================================ C03


def _live_user_ops(prog):
    """Independent bookkeeping: user-primitive ops that reach the output and depend on x."""
    ops = prog["ops"]
    base = 1 + len(prog["consts"])
    dep = {0: True}
    for i in range(1, base):
        dep[i] = False
    for k, op in enumerate(ops):
        dep[base + k] = any(dep[i] for i in op["in"])
    used = set()
    stack = list(prog["out"])
    while stack:
        v = stack.pop()
        if v in used:
            continue
        used.add(v)
        if v >= base:
            stack.extend(ops[v - base]["in"])
    live = {}
    for k, op in enumerate(ops):
        if op["op"] in ("log_scale", "log_mul", "log_tri", "log_ident") and (op["op"] != "log_tri" or dep[op["in"][0]]):
            live[k] = (base + k) in used and dep[base + k]
    # ancestors among user ops (for order checks): anc[k] = set of user ops whose value k consumes transitively
    reach = {}
    for k, op in enumerate(ops):
        s = set()
        for i in op["in"]:
            if i >= base:
                s.add(i - base)
                s |= reach[i - base]
        reach[k] = s
    return live, reach


def c03_case(res, case, tier):
    import autograd.numpy as anp
    from autograd.core import make_jvp, make_vjp

    prog = programs.dec_program(case["prog"])
    x = dec(case["x"])
    st = programs.structure_signature(prog)
    sig = {"engine": "graph", "family": "program", "n_ops": min(st["n_ops"] // 10 * 10, 60), "ops": st["ops"], "multi_edges": min(st["multi_edges"], 3), "max_fanout": min(st["max_fanout"], 6), "dead_ops": min(st["dead_ops"], 4)}
    U = user_prims()

    def f_np(xx):
        return programs.interpret(prog, xx, onp, RAW_USER)

    def f_ag(xx):
        return programs.interpret(prog, xx, anp, U)

    with warnings.catch_warnings():
        warnings.simplefilter("ignore")
        try:
            with onp.errstate(all="ignore"):
                y0 = f_np(x)
        except Exception as e:
            return _nj(res, "numpy_raised:" + type(e).__name__)
        if not onp.isfinite(y0):
            return _nj(res, "nonfinite_primal")
        if not programs.well_scaled(prog, x, RAW_USER):
            return _nj(res, "ill_scaled")
        PROBES.reset()
        del LOG[:]
        try:
            vjp, yA = make_vjp(f_ag, x)
            npass0 = len(PROBES.passes)
            grad = vjp(1.0)
        except Exception as e:
            return _viol(res, sig, "exception:" + type(e).__name__, case, traceback.format_exc()[-400:])
    try:
        with warnings.catch_warnings():
            warnings.simplefilter("ignore")
            grad_again = vjp(1.0)
        if not bits_equal(onp.asarray(grad_again), onp.asarray(grad)):
            return _viol(res, sig, "unstable_repeat", case, "second pull-back of the same trace differs: %r vs %r" % (grad_again, grad))
    except Exception as e:
        return _viol(res, sig, "exception:second_pullback:" + type(e).__name__, case, traceback.format_exc()[-400:])
    if not st["depends_on_x"]:
        if onp.any(onp.asarray(grad) != 0):
            return _viol(res, sig, "nonzero_for_independent", case, "gradient %r" % (grad,))
        _cnt(res, "independent_programs")
        return _nj(res, "independent_of_x")
    if find_boxes(grad) or find_boxes(yA):
        return _viol(res, sig, "tracer_leak", case, "")
    if not bits_equal(onp.asarray(yA), onp.asarray(y0)):
        _cnt(res, "primal_not_bitwise")
        if not onp.allclose(yA, y0, rtol=1e-12, atol=1e-12):
            return _viol(res, sig, "primal_mismatch", case, "traced %r plain %r" % (yA, y0))
    if onp.shape(grad) != onp.shape(x):
        return _viol(res, sig, "wrong_shape", case, "%s vs %s" % (onp.shape(grad), onp.shape(x)))
    # (a) values vs FD of the same op list on raw NumPy
    xf = realify(x)
    gf = realify(grad)
    base_log = []
    programs.interpret(prog, x, onp, RAW_USER, blog=base_log)

    def F(v):
        bl = []
        r = programs.interpret(prog, unrealify(v, x), onp, RAW_USER, blog=bl)
        # a stencil point that takes a different control-flow path is on the other side of a
        # discontinuity: the direction is irregular (decided on NumPy only)
        return onp.array([r if bl == base_log else onp.nan])

    judged = 0
    for i in range(xf.size):
        e = onp.zeros(xf.size)
        e[i] = 1.0
        fd = fd_directional(F, xf, e)
        if not fd.ok:
            _cnt(res, "irregular_dirs")
            continue
        judged += 1
        if abs(gf[i] - fd.val[0]) > 1e-6 * (1.0 + abs(fd.val[0])):
            return _viol(res, sig, "wrong_value", case, "d/dx[%d]: autograd %r FD %r (err %.1e)" % (i, gf[i], fd.val[0], fd.err))
    # (d) forward mode agrees
    try:
        with warnings.catch_warnings():
            warnings.simplefilter("ignore")
            v = onp.random.Generator(onp.random.PCG64(7)).standard_normal(onp.shape(x))
            yJ, t = make_jvp(f_ag, x)(v)
        lhs, rhs = float(t), pair(gf, realify(v))
        if abs(lhs - rhs) > 1e-9 * (1.0 + float(onp.sum(onp.abs(gf * realify(v))))):
            return _viol(res, sig, "modes_disagree", case, "jvp %r vs <grad,v> %r" % (lhs, rhs))
        _cnt(res, "fwd_compared")
    except NotImplementedError:
        _cnt(res, "fwd_unsupported")
    except Exception as e:
        return _viol(res, sig, "exception:fwd:" + type(e).__name__, case, traceback.format_exc()[-400:])
    # (b),(c) probe log of the first-order backward pass
    passes = PROBES.passes[npass0:][:1]
    nev = 0
    if PROBES.attached.get("P-node") is True and PROBES.attached.get("P-pass") is True:
        for ps in passes:
            if ps.depth != 0:
                continue
            nev += len(ps.events)
            for (sym, det) in PROBES.check_pass(ps):
                if sym == "probe_error":
                    _cnt(res, "probe_errors")
                    continue
                return _viol(res, sig, sym, case, det)
        _cnt(res, "rule_applications_observed", nev)
        _cnt(res, "passes_checked", len(passes))
    # public-API cross-check through the logging primitives
    live, reach = _live_user_ops(prog)
    applied_all = [t[1] for t in LOG if t[0] == "apply"]
    applied = applied_all[: len(applied_all) // 2] if len(applied_all) % 2 == 0 else applied_all
    if applied_all[len(applied):] != applied and len(applied_all) % 2 == 0:
        return _viol(res, sig, "rule_count", case, "two pull-backs of one trace applied different rule sequences: %s vs %s" % (applied, applied_all[len(applied):]))
    for k, is_live in live.items():
        c = applied.count(k)
        if c != (1 if is_live else 0):
            return _viol(res, sig, "rule_count", case, "user primitive op#%d (%s) applied %d times, expected %d" % (k, "live" if is_live else "dead/independent", c, 1 if is_live else 0))
    pos = {k: i for i, k in enumerate(applied)}
    for k in pos:
        for a in reach[k]:
            if a in pos and pos[a] < pos[k]:
                return _viol(res, sig, "rule_order", case, "user primitive op#%d differentiated before its consumer op#%d" % (a, k))
    _cnt(res, "user_prim_applications", len(applied))
    if judged == 0:
        return _nj(res, "irregular_point")
    if nev < 3 and PROBES.attached.get("P-node") is True:
        return _nj(res, "too_small")
    _ok(res, sig)
    if res["evaluations"] % 150 == 1:
        res["samples"].append({"structure": st, "ops": [(o["op"], o["in"]) for o in prog["ops"]][:25], "out": prog["out"], "rule_applications": nev, "user_applied_order": applied[:20]})


def c03_toposort(res, rng, n_dags):
    from autograd.util import toposort

    for it in range(n_dags):
        res["evaluations"] += 1
        n = int(rng.integers(1, 14))
        parents = {}
        for i in range(n):
            k = int(rng.integers(0, 4)) if i > 0 else 0
            parents[i] = [int(rng.integers(0, i)) for _ in range(k)] if i > 0 else []
            if i > 0 and rng.uniform() < 0.25 and parents[i]:
                parents[i].append(parents[i][0])  # multi-edge
        end = n - 1
        case = {"kind": "toposort", "parents": {str(k): v for k, v in parents.items()}, "end": end}
        sig = {"engine": "graph", "family": "toposort", "n": n, "multi": any(len(set(p)) != len(p) for p in parents.values()), "unreachable": False}
        reach = set()
        st = [end]
        while st:
            v = st.pop()
            if v in reach:
                continue
            reach.add(v)
            st.extend(parents[v])
        sig["unreachable"] = len(reach) < n
        try:
            order = list(toposort(end, lambda v: parents[v]))
        except Exception as e:
            _viol(res, sig, "exception:" + type(e).__name__, case, traceback.format_exc()[-300:])
            continue
        if sorted(order) != sorted(reach):
            _viol(res, sig, "rule_count", case, "toposort yields %s, reachable set %s" % (order, sorted(reach)))
            continue
        pos = {v: i for i, v in enumerate(order)}
        bad = [(c, p) for c in reach for p in parents[c] if pos[p] < pos[c]]
        if bad:
            _viol(res, sig, "rule_order", case, "parent before consumer: %s" % (bad[:3],))
            continue
        _ok(res, sig)
        _cnt(res, "toposort_dags")


def c03_toposort_replay(res, case):
    from autograd.util import toposort

    parents = {int(k): v for k, v in case["parents"].items()}
    end = case["end"]
    sig = {"engine": "graph", "family": "toposort"}
    reach = set()
    st = [end]
    while st:
        v = st.pop()
        if v in reach:
            continue
        reach.add(v)
        st.extend(parents[v])
    order = list(toposort(end, lambda v: parents[v]))
    pos = {v: i for i, v in enumerate(order)}
    if sorted(order) != sorted(reach):
        return _viol(res, sig, "rule_count", case, "order %s" % order)
    if [(c, p) for c in reach for p in parents[c] if pos[p] < pos[c]]:
        return _viol(res, sig, "rule_order", case, "order %s" % order)
    _ok(res, sig)


def c03_guards_and_depth(res):
    """(a) Guard idioms: a selection (where / select / boolean or integer indexing) keeps a singular branch away
    from the points where it is singular, so the cotangent reaching the selection is infinite or NaN at the
    unselected entries; the reverse-mode gradient is the finite analytic one (a dependency path through an
    unselected entry contributes nothing). (b) Graphs far deeper than the interpreter's recursion limit
    (thousands of sequential operations, ladders of diamonds, dead branches): the gradient equals the one from
    the hand-written derivative recursion; an exception where plain NumPy runs is a violation."""
    import sys

    import autograd.numpy as anp
    from autograd import grad

    x = onp.array([0.25, 4.0, 0.5, 9.0, 1.0000001, 0.0])
    big = x > 1
    safe = onp.where(big, x, 1.0)
    G = {
        "sqrt_of_where": (lambda t: anp.sum(anp.sqrt(anp.where(t > 1, t, 0.0))), onp.where(big, 0.5 / onp.sqrt(safe), 0.0)),
        "sqrt_of_where_times_x": (lambda t: anp.sum(anp.sqrt(anp.where(t > 1, t, 0.0)) * t), onp.where(big, 1.5 * onp.sqrt(safe), 0.0)),
        "reciprocal_of_where_inf": (lambda t: anp.sum(1.0 / anp.where(t > 1, t, onp.inf)), onp.where(big, -1.0 / safe**2, 0.0)),
        "log_of_where_other_branch": (lambda t: anp.sum(anp.log(anp.where(t <= 1, 1.0, t))), onp.where(big, 1.0 / safe, 0.0)),
        "where_of_sqrt_double_guard": (lambda t: anp.sum(anp.where(t > 1, anp.sqrt(anp.where(t > 1, t - 1.0, 0.0)), 0.0)), onp.where(big, 0.5 / onp.sqrt(onp.where(big, x - 1.0, 1.0)), 0.0)),
        "sqrt_of_select": (lambda t: anp.sum(anp.sqrt(anp.select([t > 1], [t], 0.0))), onp.where(big, 0.5 / onp.sqrt(safe), 0.0)),
        "power_of_where_array_branch": (lambda t: anp.sum(anp.where(t > 1, t, onp.zeros(6)) ** 0.5), onp.where(big, 0.5 / onp.sqrt(safe), 0.0)),
        "sqrt_of_bool_index_then_dense": (lambda t: anp.sum(anp.sqrt((t - 1.0)[t > 1])) + anp.sum(t), onp.where(big, 0.5 / onp.sqrt(onp.where(big, x - 1.0, 1.0)), 0.0) + 1.0),
        "where_broadcast_scalar_cond_row": (lambda t: anp.sum(anp.sqrt(anp.where((t > 1)[None, :], anp.stack([t, 2.0 * t]), 0.0))), onp.where(big, (0.5 + onp.sqrt(0.5)) / onp.sqrt(safe), 0.0)),
    }
    for name, (f, want) in G.items():
        res["evaluations"] += 1
        sig = {"engine": "graph", "family": "guard_idiom", "fn": name}
        case = {"kind": "c03_fixed", "fn": name}
        try:
            with warnings.catch_warnings():
                warnings.simplefilter("ignore")
                with onp.errstate(all="ignore"):
                    got = grad(f)(x)
        except Exception as e:
            _viol(res, sig, "exception:" + type(e).__name__, case, traceback.format_exc()[-300:])
            continue
        if onp.shape(got) != x.shape or not onp.all(onp.isfinite(got)) or not onp.allclose(got, want, rtol=1e-12, atol=1e-12):
            _viol(res, sig, "wrong_value", case, "gradient %s, analytic %s" % (common.brief(onp.asarray(got)), common.brief(want)))
        else:
            _ok(res, sig)
    t0 = onp.array([0.3, -0.4, 1.1])
    for name, depth in (("chain", 3000), ("diamond_ladder", 1500), ("chain_with_dead_branches", 2000)):
        res["evaluations"] += 1
        sig = {"engine": "graph", "family": "deep_graph", "fn": name, "depth": depth, "recursion_limit": sys.getrecursionlimit()}
        case = {"kind": "c03_fixed", "fn": name}

        def f(t, xp=anp):
            y = t
            for i in range(depth):
                if name == "chain":
                    y = xp.sin(y) * 0.999 + 0.001 * t
                elif name == "diamond_ladder":
                    a, b = xp.sin(y), xp.cos(y)
                    y = 0.6 * a + 0.3 * b * a + 0.001 * t
                else:
                    dead = xp.exp(y) * y  # never reaches the output
                    y = xp.tanh(y) * 0.999 + 0.001 * t
            return xp.sum(y)

        # derivative by the hand-written forward recursion d_{i+1} = phi'(y_i) d_i + 0.001
        y, d = t0.copy(), onp.ones(3)
        for i in range(depth):
            if name == "chain":
                y, d = onp.sin(y) * 0.999 + 0.001 * t0, onp.cos(y) * 0.999 * d + 0.001
            elif name == "diamond_ladder":
                a, b = onp.sin(y), onp.cos(y)
                da, db = onp.cos(y) * d, -onp.sin(y) * d
                y, d = 0.6 * a + 0.3 * b * a + 0.001 * t0, 0.6 * da + 0.3 * (db * a + b * da) + 0.001
            else:
                y, d = onp.tanh(y) * 0.999 + 0.001 * t0, (1 - onp.tanh(y) ** 2) * 0.999 * d + 0.001
        try:
            with warnings.catch_warnings():
                warnings.simplefilter("ignore")
                got = grad(f)(t0)
        except BaseException as e:
            _viol(res, sig, "exception:" + type(e).__name__, case, "%d sequential operations: %s" % (depth, str(e)[:200]))
            continue
        if not onp.allclose(got, d, rtol=1e-9, atol=1e-12):
            _viol(res, sig, "wrong_value", case, "gradient %s, recursion %s" % (common.brief(onp.asarray(got)), common.brief(d)))
        else:
            _ok(res, sig)


def c03_make(rng, tier, i):
    n_ops = int(rng.choice([5, 8, 12, 20, 35, 60] if tier == "thorough" else [5, 8, 12, 20, 35]))
    shape = [(3,), (2, 2), (4,), (2, 3)][int(rng.integers(0, 4))]
    fams_all = ("unary", "binary", "alias", "sparse", "reduce", "control", "user")
    mode = i % 6
    if mode == 0:
        fams = ("binary", "user", "unary")
    elif mode == 1:
        fams = ("binary", "alias", "sparse", "user")
    elif mode == 2:
        fams = ("control", "unary", "binary", "user")
    else:
        fams = fams_all
    prog = programs.gen_program(rng, n_ops=n_ops, shape=shape, p_dead=float(rng.choice([0.0, 0.15, 0.4])), p_multi=float(rng.choice([0.0, 0.2, 0.6])), families=fams, fan=int(rng.integers(1, 7)), n_out=int(rng.integers(1, 3)))
    x = rng.uniform(0.3, 1.4, size=shape) * rng.choice([-1.0, 1.0], size=shape)
    return {"kind": "program", "prog": programs.enc_program(prog), "x": enc(x)}


# ================================================================ C10


def c10_make(rng, tier, i):
    n_ops = int(rng.choice([3, 5, 8, 12]))
    shape = [(3,), (2, 2), (4,)][int(rng.integers(0, 3))]
    # round 9, scale class: buffers beyond 2**16 elements (fast paths / chunking / in-place accumulation that
    # only engage on large arrays); no full Jacobians there
    large = i % 20 == 19
    if large:
        shape = [(66000,), (257, 257)][(i // 20) % 2]
        n_ops = min(n_ops, 8)
    fams = [("alias", "binary"), ("alias", "sparse", "binary"), ("alias", "binary", "unary", "sparse", "reduce"), ("alias",), ("sparse", "alias"), ("user", "alias", "binary"), ("user", "sparse", "unary")][i % 7]
    prog = programs.gen_program(rng, n_ops=n_ops, shape=shape, p_dead=0.0, p_multi=0.5, families=fams, fan=int(rng.integers(1, 4)), n_out=1)
    end = ["raw", "x_plus_x", "views_sum", "weighted", "sparse_end", "tuple_out", "independent", "identity"][int(rng.integers(0, 8))]
    x = rng.uniform(0.3, 1.4, size=shape) * rng.choice([-1.0, 1.0], size=shape)
    hist = [str(t) for t in rng.choice(["g1", "g2", "g1", "other", "g3", "jac"], size=int(rng.integers(3, 7)))]
    if large:
        hist = [h for h in hist if h != "jac"] + ["g1", "g2", "g1"]
    # precision mixes: a single-precision argument among double-precision constants, with cotangents of the
    # output's own or of a wider precision (contributions of different widths meet in one accumulator)
    prec = ["f64", "f64", "x32", "f64", "x32g64", "f64", "f64", "x32g64"][i % 8]
    if prec != "f64":
        x = x.astype(onp.float32)
    return {"kind": "c10", "prog": programs.enc_program(prog), "x": enc(x), "end": end, "hist": hist, "gseed": int(rng.integers(0, 2**31)), "prec": prec}


def _c10_fun(prog, end, xp, U, consts2):
    """Array-valued program: the end node is (optionally) an alias chain of earlier values so that the
    caller's cotangent object itself travels down the graph."""
    shape = tuple(prog["shape"])
    size = int(onp.prod(shape))

    def f(x):
        vals_ = programs.interpret_values(prog, x, xp, U)
        last = vals_[prog["out"][0]]
        if end == "raw":
            return last
        if end == "x_plus_x":
            return last + last
        if end == "views_sum":
            return xp.reshape(last, shape) + xp.transpose(xp.transpose(last)) + last[...]
        if end == "weighted":
            return prog["w"][0] * last + consts2
        if end == "sparse_end":
            fl = xp.ravel(last)
            return xp.reshape(fl[onp.arange(size)[::-1]], shape) + last[...] + last
        if end == "independent":
            return consts2 * 2.0  # does not depend on x: every pull-back is an exact zero of x's space
        if end == "identity":
            return x  # the caller's cotangent object is itself the answer
        if end == "tuple_out":
            if xp is onp:
                return (last, last + 0.0, onp.ravel(last)[0])
            from autograd.builtins import tuple as atuple

            return atuple((last, last + 0.0, xp.ravel(last)[0]))
        raise ValueError(end)

    return f


def c10_case(res, case, tier):
    import autograd.numpy as anp
    from autograd import jacobian
    from autograd.core import make_jvp, make_vjp

    prog = programs.dec_program(case["prog"])
    x0 = dec(case["x"])
    end = case["end"]
    st = programs.structure_signature(prog)
    sig = {"engine": "graph", "family": "c10", "end": end, "ops": st["ops"], "hist": case["hist"], "max_fanout": min(st["max_fanout"], 4), "multi_edges": min(st["multi_edges"], 3)}
    U = user_prims()
    rng = onp.random.Generator(onp.random.PCG64(case["gseed"]))
    shape = tuple(prog["shape"])
    consts2 = rng.uniform(0.5, 1.5, size=shape)
    f_ag = _c10_fun(prog, end, anp, U, consts2)
    f_np = _c10_fun(prog, end, onp, RAW_USER, consts2)
    with warnings.catch_warnings():
        warnings.simplefilter("ignore")
        try:
            y0 = f_np(x0)
        except Exception as e:
            return _nj(res, "numpy_raised:" + type(e).__name__)
        if not common.all_finite(y0):
            return _nj(res, "nonfinite_primal")
        if not programs.well_scaled(prog, x0, RAW_USER):
            return _nj(res, "ill_scaled")
        gs = {k: common.rand_like(rng, y0) for k in ("g1", "g2", "g3")}
        if case.get("prec") == "x32g64":
            gs = {k: common.tree_map(lambda a: onp.asarray(a, dtype=onp.float64) if isinstance(a, onp.ndarray) else a, g) for k, g in gs.items()}
        if case.get("prec", "f64") != "f64":
            sig["prec"] = case["prec"]
        compared = 0
        for frozen in (True, False):
            x = x0.copy()
            foreign = [x, consts2] + list(prog["consts"]) + list(prog["w"]) + common.leaves(list(gs.values()))
            foreign = [a for a in foreign if isinstance(a, onp.ndarray)]
            for a in foreign:
                a.flags.writeable = not frozen
            hashes = [vhash(a) for a in foreign]
            PROBES.reset()
            PROBES.foreign = foreign
            handed = []  # (result, hash) of everything already returned to the "caller"
            mode = "frozen" if frozen else "writable"

            def audit(where):
                for a, h in zip(foreign, hashes):
                    if vhash(a) != h:
                        return "foreign array modified (%s, %s)" % (mode, where)
                for (r, h) in handed:
                    if vhash(r) != h:
                        return "previously returned result modified (%s, %s)" % (mode, where)
                return None

            try:
                try:
                    vjp, yA = make_vjp(f_ag, x)
                    vjp_other, _ = make_vjp(lambda t: f_ag(t) , x)
                    handed.append((yA, vhash(yA)))
                    for h in case["hist"]:
                        if h == "jac":
                            if end == "tuple_out":
                                continue
                            J = jacobian(f_ag)(x)
                            Jref = onp.stack([make_vjp(f_ag, x)[0](b) for b in _basis(y0)]).reshape(onp.shape(y0) + onp.shape(x))
                            compared += 1
                            if not bits_equal(onp.asarray(J), onp.asarray(Jref)):
                                return _viol(res, sig, "unstable_repeat", case, "jacobian differs from stacked fresh VJP calls (%s)" % mode)
                            handed.append((J, vhash(J)))
                        else:
                            g = gs["g2"] if h == "other" else gs[h]
                            r = (vjp_other if h == "other" else vjp)(g)
                            fresh = make_vjp(f_ag, x)[0](g)
                            compared += 1
                            if find_boxes(r):
                                return _viol(res, sig, "tracer_leak", case, mode)
                            if not bits_equal(r, fresh):
                                return _viol(res, sig, "unstable_repeat", case, "call %r of the history returned a result different from a fresh single call (%s)" % (h, mode))
                            handed.append((r, vhash(r)))
                            # the caller owns what it was handed: it accumulates into it (unless the answer is
                            # one of its own arrays, e.g. its cotangent returned as is)
                            if not frozen and isinstance(r, onp.ndarray) and r.flags.writeable and r.size and r.dtype.kind in "fc" \
                                    and not any(onp.shares_memory(r, a) for a in foreign) and not any(isinstance(q, onp.ndarray) and onp.shares_memory(r, q) for q, _ in handed[:-1]):
                                r += 1.0
                                handed[-1] = (r, vhash(r))
                                _cnt(res, "caller_wrote_into_result", 1)
                        bad = audit("after " + h)
                        if bad:
                            return _viol(res, sig, "foreign_write", case, bad)
                    # forward-mode closure reuse
                    jvp = make_jvp(f_ag, x)
                    v1, v2 = common.rand_like(rng, x0), common.rand_like(rng, x0)
                    for a in (v1, v2):
                        a.flags.writeable = not frozen
                    hv = [vhash(v1), vhash(v2)]
                    t1 = jvp(v1)[1]
                    t2 = jvp(v2)[1]
                    t1b = jvp(v1)[1]
                    compared += 1
                    if not bits_equal(t1, t1b) or not bits_equal(t1, make_jvp(f_ag, x)(v1)[1]):
                        return _viol(res, sig, "unstable_repeat", case, "JVP closure not reusable (%s)" % mode)
                    if [vhash(v1), vhash(v2)] != hv:
                        return _viol(res, sig, "foreign_write", case, "tangent modified (%s)" % mode)
                    bad = audit("after jvp")
                    if bad:
                        return _viol(res, sig, "foreign_write", case, bad)
                except ValueError as e:
                    if "read-only" in str(e) and frozen:
                        return _viol(res, sig, "foreign_write", case, "write into frozen foreign memory: %s\n%s" % (e, traceback.format_exc()[-500:]))
                    raise
            except NotImplementedError:
                return _nj(res, "raised:NotImplementedError")
            except Exception as e:
                return _viol(res, sig, "exception:" + type(e).__name__, case, traceback.format_exc()[-500:])
            finally:
                for a in foreign:
                    a.flags.writeable = True
            if PROBES.owned_shares_foreign:
                _cnt(res, "owned_buffer_shares_foreign", PROBES.owned_shares_foreign)
                PROBES.owned_shares_foreign = 0
            for k, n in PROBES.acc.items():
                _cnt(res, "acc:" + k, n)
            PROBES.acc.clear()
    if compared < 3:
        return _nj(res, "too_few_calls")
    _cnt(res, "closure_calls_compared", compared)
    _ok(res, sig)
    if res["evaluations"] % 100 == 1:
        res["samples"].append({"end": end, "history": case["hist"], "ops": [(o["op"], o["in"]) for o in prog["ops"]], "calls_compared": compared})


def c10_container_case(res, case):
    """Container-valued programs (slices of tuples/lists, overlapping selections, dict outputs) with the
    caller's cotangent arrays frozen / hashed, closures called repeatedly."""
    import autograd.builtins as ab
    import autograd.numpy as anp
    from autograd.core import make_jvp, make_vjp

    rng = onp.random.Generator(onp.random.PCG64(case["seed"]))
    tmpl = case["tmpl"]
    A_ = lambda *s: rng.standard_normal(s)
    t0 = (A_(2), A_(2), A_(2), A_(3))
    progs = {
        "overlapping_slices": (t0, lambda t: ab.tuple((t[0:2], t[1:3]))),
        "slice_twice": (t0, lambda t: ab.list([t[0:2], t[0:2], t[2]])),
        "reverse_and_tail": (t0, lambda t: ab.tuple((t[::-1], t[0], t[1:]))),
        "slice_of_slice": (t0, lambda t: ab.tuple((t[0:3][1:], t[1:][0:2], t[-3:-1]))),
        "list_slices": ([A_(2), A_(2), A_(2)], lambda t: ab.list([t[0:2], t[1:], t[:]])),
        "dict_values": ({"a": A_(2), "b": (A_(2), A_(2))}, lambda d: ab.dict({"p": d["b"][0:2], "q": ab.tuple((d["a"], d["b"][1:])), "r": d["b"][::-1]})),
        "index_and_slice": (t0, lambda t: ab.tuple((t[1], t[0:2], t[1] * 2.0, t[1:2]))),
        "concat_then_slice": (t0, lambda t: ab.tuple(((t + t)[2:6], t[0:2]))),
        # a container value used whole first (its cotangent is the caller's object) and indexed afterwards
        "whole_then_index": (t0, lambda t: ab.tuple((t, t[1] * 2.0, t[0:2]))),
        "whole_then_index_list": ([A_(2), A_(2), A_(2)], lambda t: ab.list([t, t[0], t[2] * 3.0])),
        "whole_then_key_dict": ({"a": A_(2), "b": A_(3)}, lambda d: ab.tuple((d, d["a"] * 2.0, d["b"]))),
        # + between a differentiated list / tuple and a plain one (either side): the input container itself
        # must come through unchanged (same length, same leaves)
        "list_plus_plain": ([A_(2), A_(2), A_(2)], lambda t: ab.tuple(((t + [2.0])[0], (t + [3.0, 4.0])[1] * 2.0, t[2], (t + [5.0])[3] * t[0]))),
        "plain_plus_list": ([A_(2), A_(2)], lambda t: ab.tuple((([1.5] + t)[1], ([2.5, 3.5] + t)[3] * 2.0, ([0.5] + t)[0] * t[1]))),
        "tuple_plus_plain": ((A_(2), A_(2)), lambda t: ab.tuple(((t + (2.0,))[0], ((1.0, 2.0) + t)[3] * 2.0, (t + t)[2]))),
        "inner_whole_then_index": (t0, lambda t: (lambda u: ab.tuple((u, u[0] * 2.0, u[1])))(ab.tuple((t[0] * 1.5, t[1], t[3])))),
    }
    x0, f = progs[tmpl]
    sig = {"engine": "graph", "family": "c10_container", "tmpl": tmpl}
    with warnings.catch_warnings():
        warnings.simplefilter("ignore")
        y0 = make_vjp(f, x0)[1]
        compared = 0
        for frozen in (True, False):
            gs = [common.rand_like(rng, y0) for _ in range(3)]
            foreign = [a for a in common.leaves([x0, gs]) if isinstance(a, onp.ndarray)]
            for a in foreign:
                a.flags.writeable = not frozen
            hashes = [vhash(a) for a in foreign]
            hx0 = (vhash(x0), repr(common.sdesc(x0)), [id(l) for l in common.leaves(x0)])
            x0_changed = lambda: (vhash(x0), repr(common.sdesc(x0)), [id(l) for l in common.leaves(x0)]) != hx0
            mode = "frozen" if frozen else "writable"
            try:
                try:
                    vjp, _ = make_vjp(f, x0)
                    if x0_changed():
                        return _viol(res, sig, "foreign_write", case, "tracing changed the input container itself (length / leaves): %s" % (common.brief(x0, 200),))
                    outs = []
                    for k in (0, 1, 0, 2, 0):
                        r = vjp(gs[k])
                        fresh = make_vjp(f, x0)[0](gs[k])
                        compared += 1
                        if not bits_equal(r, fresh):
                            return _viol(res, sig, "unstable_repeat", case, "call with cotangent #%d differs from a fresh single call (%s)" % (k, mode))
                        outs.append((r, vhash(r)))
                        if [vhash(a) for a in foreign] != hashes:
                            return _viol(res, sig, "foreign_write", case, "input or caller's cotangent modified (%s) by call #%d" % (mode, k))
                        for (o, h) in outs:
                            if vhash(o) != h:
                                return _viol(res, sig, "foreign_write", case, "a previously returned result was modified (%s)" % mode)
                    v = common.rand_like(rng, x0)
                    for a in common.leaves(v):
                        if isinstance(a, onp.ndarray):
                            a.flags.writeable = not frozen
                    hv = vhash(v)
                    jvp = make_jvp(f, x0)
                    t1, t2 = jvp(v)[1], jvp(v)[1]
                    if x0_changed():
                        return _viol(res, sig, "foreign_write", case, "the input container itself was changed (%s)" % mode)
                    if not bits_equal(t1, t2) or vhash(v) != hv or [vhash(a) for a in foreign] != hashes:
                        return _viol(res, sig, "foreign_write" if vhash(v) != hv else "unstable_repeat", case, "JVP closure (%s)" % mode)
                except ValueError as e:
                    if "read-only" in str(e) and frozen:
                        return _viol(res, sig, "foreign_write", case, "write into frozen foreign memory: %s\n%s" % (e, traceback.format_exc()[-400:]))
                    raise
            except NotImplementedError:
                _cnt(res, "container_fwd_unsupported")
            except Exception as e:
                return _viol(res, sig, "exception:" + type(e).__name__, case, traceback.format_exc()[-400:])
            finally:
                for a in foreign:
                    a.flags.writeable = True
    _cnt(res, "closure_calls_compared", compared)
    _cnt(res, "container_programs")
    _ok(res, dict(sig, seed=case["seed"][1] % 7))


C10_TEMPLATES = ["list_plus_plain", "plain_plus_list", "tuple_plus_plain", "overlapping_slices", "slice_twice", "reverse_and_tail", "slice_of_slice", "list_slices", "dict_values", "index_and_slice", "concat_then_slice", "whole_then_index", "whole_then_index_list", "whole_then_key_dict", "inner_whole_then_index"]


def c10_catalogue_repeat(res, c, rng):
    """Every primitive configuration of the G-prim catalogue: the VJP / JVP closures are called
    repeatedly (g1, g2, g1) with frozen arguments and compared with fresh single calls."""
    from autograd.core import make_jvp, make_vjp

    from . import prim as P

    prep, out = P.prepare(c)
    if out is not None:
        return _nj(res, out.reason or "not_prepared")
    ncall, acall, x0, y0, F = prep
    sig = {"engine": "graph", "family": "prim_repeat", "prim": c["prim"], "ns": c["ns"], "form": c["form"], "args": [P.classify(a) for a in c["args"]], "kw": {k: P.classify(v) for k, v in c["kwargs"].items()}, "argnum": c["argnum"] if isinstance(c["argnum"], int) else list(c["argnum"])}
    case = {"kind": "prim_repeat", "case": P.encode_case(c)}
    arrays = [a for a in common.leaves([c["args"], list(c["kwargs"].values())]) if isinstance(a, onp.ndarray)]
    h0 = [vhash(a) for a in arrays]
    for a in arrays:
        a.flags.writeable = False
    try:
        with warnings.catch_warnings():
            warnings.simplefilter("ignore")
            with onp.errstate(all="ignore"):
                try:
                    vjp, yA = make_vjp(acall, x0)
                    hyA = vhash(yA)  # the primal result handed to the caller (with out=: the caller's own buffer)
                    g1, g2 = common.rand_like(rng, y0), common.rand_like(rng, y0)
                    # a scalar output accepts a 0-d ndarray cotangent as well (it is what grad() passes):
                    # unlike a NumPy scalar it is mutable
                    g1 = common.tree_map(lambda l: onp.array(l) if isinstance(l, (onp.generic, float, complex)) else l, g1)
                    for a in common.leaves([g1, g2]):
                        if isinstance(a, onp.ndarray):
                            a.flags.writeable = False
                    hg = vhash([g1, g2])
                    r1 = vjp(g1)
                    hr1 = vhash(r1)
                    r2 = vjp(g2)
                    r1b = vjp(g1)
                    fresh2 = make_vjp(acall, x0)[0](g2)
                    if not bits_equal(r1, r1b) or not bits_equal(r2, fresh2):
                        return _viol(res, sig, "unstable_repeat", case, "repeated call of the VJP function returned a different answer than the first / a fresh call")
                    if vhash(r1) != hr1:
                        return _viol(res, sig, "foreign_write", case, "a previously returned VJP result was modified by a later call")
                    if vhash([g1, g2]) != hg:
                        return _viol(res, sig, "foreign_write", case, "cotangent modified")
                    if vhash(yA) != hyA:
                        return _viol(res, sig, "foreign_write", case, "the primal result returned by make_vjp was modified by a later call of the VJP function")
                    _cnt(res, "catalogue_vjp_repeats")
                    # a fresh closure whose FIRST cotangents are zero on part of the output (what jacobian does:
                    # one basis vector after the other): a decision a rule takes from the cotangent's value must be
                    # taken again for every cotangent
                    lv = common.leaves(y0)
                    if sum(onp.size(l) for l in lv) >= 2:
                        vjp3 = make_vjp(acall, x0)[0]
                        zero_all = common.tree_map(lambda l: onp.zeros(onp.shape(l), dtype=onp.asarray(l).dtype) if onp.ndim(l) else onp.asarray(l).dtype.type(0), g2)
                        vjp3(zero_all)
                        for part in (0, 1):
                            cnt_ = [0]

                            def keep(l, part=part, cnt_=cnt_):
                                a_ = onp.array(l)
                                flat_ = a_.reshape(-1)
                                for j_ in range(flat_.size):
                                    if (cnt_[0] + j_) % 2 != part:
                                        flat_[j_] = 0
                                cnt_[0] += flat_.size
                                return a_ if onp.ndim(l) else a_.dtype.type(a_)

                            gp = common.tree_map(keep, g2)
                            if not bits_equal(vjp3(gp), make_vjp(acall, x0)[0](gp)):
                                return _viol(res, sig, "unstable_repeat", case, "a VJP function first called with cotangents that are zero on part of the output answers later cotangents differently from a fresh one")
                        if not bits_equal(vjp3(g2), fresh2):
                            return _viol(res, sig, "unstable_repeat", case, "a VJP function first called with (partly) zero cotangents answers a full cotangent differently from a fresh one")
                        _cnt(res, "catalogue_vjp_zero_first")
                except ValueError as e:
                    if "read-only" in str(e):
                        # does the same call succeed on writable copies? then the write is autograd's
                        try:
                            c2 = P.decode_case(P.encode_case(c))
                            prep2, _o = P.prepare(c2)
                            make_vjp(prep2[1], prep2[2])[0](common.rand_like(rng, prep2[3]))
                            return _viol(res, sig, "foreign_write", case, "write into frozen foreign memory: %s" % e)
                        except Exception:
                            return _nj(res, "raised:ValueError")
                    return _nj(res, "raised:ValueError")
                except Exception as e:
                    return _nj(res, "raised:" + type(e).__name__)
                try:
                    jvp = make_jvp(acall, x0)
                    v1, v2 = common.rand_like(rng, x0), common.rand_like(rng, x0)
                    if c.get("domain") == "herm":
                        v1, v2 = P._herm(onp.asarray(v1)), P._herm(onp.asarray(v2))
                    t1 = jvp(v1)[1]
                    t2 = jvp(v2)[1]
                    t1b = jvp(v1)[1]
                    if not bits_equal(t1, t1b) or not bits_equal(t2, make_jvp(acall, x0)(v2)[1]):
                        return _viol(res, dict(sig, mode="fwd"), "unstable_repeat", case, "repeated call of the JVP function differs")
                    _cnt(res, "catalogue_jvp_repeats")
                except Exception:
                    pass
        if [vhash(a) for a in arrays] != h0:
            return _viol(res, sig, "foreign_write", case, "an argument array was modified")
    finally:
        for a in arrays:
            a.flags.writeable = True
    _ok(res, sig)


def _basis(y):
    y = onp.asarray(y)
    out = []
    for idx in onp.ndindex(*y.shape):
        b = onp.zeros(y.shape, dtype=y.dtype if y.dtype.kind == "f" else float)
        b[idx] = 1.0
        out.append(b)
    return out


# ================================================================ C11


def c11_make_index(rng, tier, i):
    r = int(rng.integers(0, 5))
    shape = tuple(int(rng.integers(2, 5)) for _ in range(r))
    idx, cls = indices.gen_index(rng, shape)
    x = rng.standard_normal(shape)
    return {"kind": "index", "x": enc(x), "idx": enc(idx), "cls": cls, "wseed": int(rng.integers(0, 2**31))}


def c11_index_case(res, case, tier):
    import autograd.numpy as anp
    from autograd.core import make_jvp, make_vjp

    x = dec(case["x"])
    idx = dec(case["idx"])
    sig = {"engine": "graph", "family": "index", "cls": case["cls"], "rank": x.ndim}
    try:
        sel = x[idx]
        ids = onp.arange(x.size).reshape(x.shape)[idx]
    except Exception as e:
        return _nj(res, "numpy_rejects_config")
    sel = onp.asarray(sel)
    rng = onp.random.Generator(onp.random.PCG64(case["wseed"]))
    w = rng.standard_normal(sel.shape)
    expected = onp.bincount(onp.asarray(ids).ravel(), weights=w.ravel(), minlength=x.size).reshape(x.shape) if x.size else onp.zeros(x.shape)
    h_idx = vhash(common.leaves([idx]))  # index arrays / lists are the caller's objects
    with warnings.catch_warnings():
        warnings.simplefilter("ignore")
        try:
            vjp, y = make_vjp(lambda t: t[idx], x)
            got = vjp(w)
        except Exception as e:
            return _nj(res, "raised:" + type(e).__name__)
        if vhash(common.leaves([idx])) != h_idx:
            return _viol(res, sig, "foreign_write", case, "the caller's index object was modified by differentiating x[idx]: now %s" % common.brief(idx, 200))
        if not common.values_equal_nan(onp.asarray(y), sel):
            return _viol(res, sig, "primal_mismatch", case, "x[idx] under tracing differs from NumPy")
        if find_boxes(got):
            return _viol(res, sig, "tracer_leak", case, "")
        if onp.shape(got) != x.shape:
            return _viol(res, sig, "wrong_shape", case, "%s vs %s" % (onp.shape(got), x.shape))
        if not onp.allclose(got, expected, rtol=1e-13, atol=1e-13):
            return _viol(res, sig, "wrong_value", case, "scatter mismatch: got %s expected %s" % (common.brief(onp.asarray(got)), common.brief(expected)))
        # a cotangent with non-finite entries (the slope of sqrt at a gathered 0, a masked-out overflow): only the
        # positions those output elements were read from may become non-finite, every other position keeps the
        # scatter of the finite part exactly
        if sel.size >= 1:
            w2 = w.copy()
            flat_ids = onp.asarray(ids).ravel()
            bad_out = [0] if sel.size == 1 else [0, sel.size - 1]
            w2.ravel()[bad_out[0]] = onp.inf
            if len(bad_out) > 1:
                w2.ravel()[bad_out[1]] = onp.nan
            try:
                got2 = onp.asarray(vjp(w2))
            except Exception as e:
                return _viol(res, sig, "exception:" + type(e).__name__, case, "pull-back of a cotangent with non-finite entries raised: %s" % str(e)[:200])
            hit = onp.zeros(x.size, dtype=bool)
            hit[flat_ids[bad_out]] = True
            wf = w2.ravel().copy()
            wf[bad_out] = 0.0
            exp2 = onp.bincount(flat_ids, weights=wf, minlength=x.size)
            g2f = got2.ravel()
            if got2.shape != x.shape or not onp.all(onp.isfinite(g2f[~hit])) or not onp.allclose(g2f[~hit], exp2[~hit], rtol=1e-13, atol=1e-13):
                return _viol(res, sig, "nonfinite_spread", case, "a non-finite cotangent entry changed positions it was not read from: got %s, finite part expected %s, positions read by the non-finite entries %s" % (common.brief(got2), common.brief(exp2.reshape(x.shape)), onp.flatnonzero(hit).tolist()))
            _cnt(res, "nonfinite_cotangent_checked")
        # through grad of a weighted sum too (goes through add_outgrads sparse path at the root)
        g2 = make_vjp(lambda t: anp.sum(w * t[idx]), x)[0](1.0)
        if not onp.allclose(g2, expected, rtol=1e-13, atol=1e-13):
            return _viol(res, sig, "wrong_value", case, "grad of weighted sum mismatch")
        # forward mode: tangent of x[idx] is v[idx]
        try:
            v = rng.standard_normal(x.shape)
            yj, t = make_jvp(lambda t_: t_[idx], x)(v)
            if not common.values_equal_nan(onp.asarray(t), onp.asarray(v[idx])):
                return _viol(res, dict(sig, mode="fwd"), "wrong_value", case, "jvp of x[idx] != v[idx]")
            _cnt(res, "fwd_index_checked")
        except NotImplementedError:
            _cnt(res, "fwd_unsupported")
        except Exception as e:
            return _nj(res, "raised_fwd:" + type(e).__name__)
    if sel.size == 0:
        _cnt(res, "empty_selection_checked")
        return _nj(res, "empty_selection")
    _ok(res, sig)
    if res["evaluations"] % 200 == 1:
        res["samples"].append({"shape": list(x.shape), "index": common.brief(idx, 200), "class": case["cls"], "selected": int(sel.size), "repeats": int(sel.size - len(set(onp.asarray(ids).ravel().tolist())))})


DENSE = {
    "lin": (lambda xp, x, w: w * x, lambda x, w: w),
    "sq": (lambda xp, x, w: w * x * x, lambda x, w: 2 * w * x),
    "sin": (lambda xp, x, w: w * xp.sin(x), lambda x, w: w * onp.cos(x)),
    "ident": (lambda xp, x, w: x, lambda x, w: onp.ones_like(x)),
    # the same terms reached through transposes: their cotangents arrive as Fortran-ordered views, and the sum of
    # two of them is a Fortran-ordered (owned) running total
    "lin_T": (lambda xp, x, w: xp.transpose(x) * xp.transpose(w), lambda x, w: w),
    "sq_T": (lambda xp, x, w: xp.transpose(w) * xp.transpose(x) * xp.transpose(x), lambda x, w: 2 * w * x),
    "sin_swap": (lambda xp, x, w: xp.swapaxes(w, 0, -1) * xp.sin(xp.swapaxes(x, 0, -1)) if onp.ndim(x) >= 2 else w * xp.sin(x), lambda x, w: w * onp.cos(x)),
}


def c11_make_mix(rng, tier, i):
    shape = [(4,), (3, 3), (2, 3, 2), (), (1,), (1, 1)][int(rng.integers(0, 6))]
    k = int(rng.integers(0, 5))
    m = int(rng.integers(0, 5))
    if k + m == 0:
        k = 1
    terms = []
    for _ in range(k):
        idx, cls = indices.gen_index(rng, shape)
        terms.append({"t": "sparse", "idx": enc(idx), "cls": cls})
    for _ in range(m):
        terms.append({"t": "dense", "f": str(rng.choice(list(DENSE)))})
    order = [int(t) for t in rng.permutation(len(terms))]
    assoc = str(rng.choice(["left", "right", "tree", "python_sum", "nested_fn"]))
    via = str(rng.choice(["direct", "through_alias", "through_mul", "sibling", "sibling"]))
    return {"kind": "mix", "x": enc(rng.standard_normal(shape)), "terms": terms, "order": order, "assoc": assoc, "via": via, "wseed": int(rng.integers(0, 2**31)), "k": k, "m": m, "sparse_pow": int(rng.integers(1, 3)), "sib_nl": bool(rng.integers(0, 2))}


def c11_mix_case(res, case, tier):
    import autograd.numpy as anp
    from autograd.core import make_jvp, make_vjp

    x = dec(case["x"])
    terms = case["terms"]
    rng = onp.random.Generator(onp.random.PCG64(case["wseed"]))
    spow = int(case.get("sparse_pow", 1))  # sparse uses enter as sum(w * t[idx]) or sum(w * t[idx]**2)
    expected = onp.zeros(x.shape)
    built = []
    pattern = []
    for ti in case["order"]:
        t = terms[ti]
        if t["t"] == "sparse":
            idx = dec(t["idx"])
            try:
                sel = onp.asarray(x[idx])
                ids = onp.arange(x.size).reshape(x.shape)[idx]
            except Exception:
                continue
            w = rng.standard_normal(sel.shape)
            wq = w if spow == 1 else 2.0 * w * sel
            expected = expected + onp.bincount(onp.asarray(ids).ravel(), weights=onp.asarray(wq).ravel(), minlength=x.size).reshape(x.shape)
            built.append(("sparse", idx, w))
            pattern.append("S")
        else:
            w = rng.standard_normal(x.shape)
            expected = expected + DENSE[t["f"]][1](x, w)
            built.append(("dense", t["f"], w))
            pattern.append("D")
    if not built:
        return _nj(res, "numpy_rejects_config")
    sig = {"engine": "graph", "family": "mix", "k": pattern.count("S"), "m": pattern.count("D"), "pattern": "".join(pattern), "assoc": case["assoc"], "via": case["via"], "rank": x.ndim, "spow": spow}
    scale = 1.0 if case["via"] != "through_mul" else 1.0

    sib = case["via"] == "sibling"
    if sib:
        # the value that receives the sparse/dense uses is v = sin(x); v also enters s = v + u with
        # u = cos(x), so v's first dense contribution is the very array object u is still waiting on
        cw = rng.standard_normal(x.shape)
        dw = rng.standard_normal(x.shape)
        exp_v = onp.zeros(x.shape)
        v_np, u_np = onp.sin(x), onp.cos(x)
        for (kind, a, w) in built:
            if kind == "sparse":
                ids = onp.arange(x.size).reshape(x.shape)[a]
                wq = w if spow == 1 else 2.0 * w * onp.asarray(v_np[a])
                exp_v = exp_v + onp.bincount(onp.asarray(ids).ravel(), weights=onp.asarray(wq).ravel(), minlength=x.size).reshape(x.shape)
            else:
                exp_v = exp_v + DENSE[a][1](v_np, w)
        # sib_nl: s enters through cw*s*s, so the cotangent v and u share is itself a function of x
        gs_np = cw * (2.0 * (v_np + u_np) if case.get("sib_nl") else 1.0)
        expected = (exp_v + gs_np) * onp.cos(x) + (gs_np + 2 * dw * u_np) * (-onp.sin(x))

    def f(xp, t):
        if case["via"] == "through_alias":
            t = xp.reshape(t, t.shape)[...]
        extra = None
        late = case.get("wseed", 0) % 2 == 1
        if sib:
            v_ = xp.sin(t)
            u_ = xp.cos(t)
            sfun = (lambda s__: xp.sum(cw * s__ * s__)) if case.get("sib_nl") else (lambda s__: xp.sum(cw * s__))
            if not late:
                s_ = v_ + u_
                first = sfun(s_)
            t = v_
        vals = []
        for (kind, a, w) in built:
            if kind == "sparse":
                vals.append(xp.sum(w * t[a]) if spow == 1 else xp.sum(w * t[a] ** 2))
            else:
                vals.append(xp.sum(DENSE[a][0](xp, t, w)))
        if sib:
            # order of creation matters for the arrival order of contributions at v and u
            if late:
                # v + u is created last, so its (shared) cotangent reaches v and u first in the backward pass
                usq = xp.sum(dw * u_ * u_)
                s_ = v_ + u_
                vals = [usq] + vals + [sfun(s_)]
            else:
                vals = [first] + vals + [xp.sum(dw * u_ * u_)]
        if case["assoc"] == "left":
            tot = vals[0]
            for v in vals[1:]:
                tot = tot + v
        elif case["assoc"] == "right":
            tot = vals[-1]
            for v in vals[-2::-1]:
                tot = v + tot
        elif case["assoc"] == "tree":
            vs = list(vals)
            while len(vs) > 1:
                vs = [vs[i] + vs[i + 1] if i + 1 < len(vs) else vs[i] for i in range(0, len(vs), 2)]
            tot = vs[0]
        elif case["assoc"] == "python_sum":
            tot = sum(vals)
        else:
            def nest(vs):
                return vs[0] if len(vs) == 1 else vs[0] + nest(vs[1:])

            tot = nest(vals)
        return tot

    with warnings.catch_warnings():
        warnings.simplefilter("ignore")
        PROBES.acc.clear()
        try:
            f(onp, x)
        except Exception as e:
            return _nj(res, "numpy_raised:" + type(e).__name__)
        try:
            got = make_vjp(lambda t: f(anp, t), x)[0](1.0)
        except NotImplementedError:
            return _nj(res, "raised:NotImplementedError")
        except Exception as e:
            # the program runs on plain NumPy: a failure while accumulating is a violation, not a skip
            return _viol(res, sig, "exception:" + type(e).__name__, case, traceback.format_exc()[-500:])
        for k, n in PROBES.acc.items():
            _cnt(res, "acc:" + k, n)
        PROBES.acc.clear()
        if onp.shape(got) != x.shape:
            return _viol(res, sig, "wrong_shape", case, "%s vs %s" % (onp.shape(got), x.shape))
        if not onp.allclose(got, expected, rtol=1e-12, atol=1e-12):
            return _viol(res, sig, "wrong_value", case, "accumulated gradient differs from the dense-equivalent sum: max dev %r" % float(onp.max(onp.abs(got - expected))))
        try:
            v = rng.standard_normal(x.shape)
            t = make_jvp(lambda t_: f(anp, t_), x)(v)[1]
            if abs(float(t) - float(onp.sum(expected * v))) > 1e-11 * (1.0 + float(onp.sum(onp.abs(expected * v)))):
                return _viol(res, dict(sig, mode="fwd"), "wrong_value", case, "jvp %r vs <grad,v> %r" % (float(t), float(onp.sum(expected * v))))
            _cnt(res, "fwd_mix_checked")
        except NotImplementedError:
            _cnt(res, "fwd_unsupported")
        # second order: the accumulation itself runs under an enclosing differentiation (cotangents are tracers)
        if x.size and x.size <= 12:
            G = lambda t_: make_vjp(lambda q: f(anp, q), t_)[0](1.0)
            w2 = rng.standard_normal(x.shape)
            try:
                fdH = common.fd_directional(lambda xf: onp.asarray(G(onp.reshape(xf, x.shape)), dtype=float).ravel(), x.ravel(), w2.ravel())
                if fdH.ok:
                    ref = fdH.val.reshape(x.shape)
                    tolH = 1e-6 * (1.0 + float(onp.max(onp.abs(ref))))
                    rr = make_vjp(lambda t_: anp.sum(G(t_) * w2), x)[0](1.0)
                    if onp.shape(rr) != x.shape or float(onp.max(onp.abs(onp.asarray(rr) - ref))) > tolH:
                        return _viol(res, dict(sig, mode="rev.rev"), "wrong_value", case, "Hessian-vector product through the traced accumulation (reverse over reverse) deviates from the FD of the gradient by %r" % (float(onp.max(onp.abs(onp.asarray(rr) - ref))) if onp.shape(rr) == x.shape else "shape"))
                    try:
                        fr = make_jvp(G, x)(w2)[1]
                        if onp.shape(fr) != x.shape or float(onp.max(onp.abs(onp.asarray(fr) - ref))) > tolH:
                            return _viol(res, dict(sig, mode="fwd.rev"), "wrong_value", case, "forward over reverse through the accumulation deviates by %r" % (float(onp.max(onp.abs(onp.asarray(fr) - ref))) if onp.shape(fr) == x.shape else "shape"))
                    except NotImplementedError:
                        pass
                    _cnt(res, "second_order_mix_checked")
            except NotImplementedError:
                _cnt(res, "second_order_unsupported")
            except Exception as e:
                return _viol(res, dict(sig, mode="order2"), "exception:" + type(e).__name__, case, traceback.format_exc()[-500:])
    _ok(res, sig)
    if res["evaluations"] % 200 == 1:
        res["samples"].append({"shape": list(x.shape), "pattern": "".join(pattern), "assoc": case["assoc"], "via": case["via"], "sparse_classes": [t["cls"] for t in terms if t["t"] == "sparse"]})


# ================================================================ driver

N = {"C03": {"quick": 8000, "thorough": 80000}, "C10": {"quick": 5000, "thorough": 50000}, "C11": {"quick": 20000, "thorough": 200000}}


def make_case(pid, rng, tier, i):
    if pid == "C03":
        return c03_make(rng, tier, i)
    if pid == "C10":
        if i % 6 == 5:
            return {"kind": "c10_container", "tmpl": C10_TEMPLATES[(i // 6) % len(C10_TEMPLATES)], "seed": [int(rng.integers(0, 2**31)), i]}
        return c10_make(rng, tier, i)
    if pid == "C11":
        return c11_make_index(rng, tier, i) if i % 2 == 0 else c11_make_mix(rng, tier, i)


def run_one(pid, res, case, tier):
    """One case under the box-nesting sanitizer (tracers must never reach raw NumPy as object arrays or
    inside raw containers, and a box may only wrap a box of a trace that is not later)."""
    probs = getattr(PROBES, "box_problems", None)
    n0 = len(probs) if probs is not None else 0
    try:
        return _run_one(pid, res, case, tier)
    finally:
        if probs is not None and len(probs) > n0:
            kind, detail = probs[n0]
            _viol(res, {"engine": "graph", "family": case["kind"], "sanitizer": kind}, "sanitizer:" + kind, case, "%s (%d reports in this case)" % (detail, len(probs) - n0))
            del probs[n0:]
        res["counters"]["boxes_checked"] = getattr(PROBES, "boxes_checked", 0)


def _run_one(pid, res, case, tier):
    k = case["kind"]
    if k == "program":
        return c03_case(res, case, tier)
    if k == "toposort":
        return c03_toposort_replay(res, case)
    if k == "c03_fixed":
        r2 = _new_result()
        c03_guards_and_depth(r2)
        res["violations"].extend(v for v in r2["violations"] if v["case"] == case)
        return
    if k == "c10":
        return c10_case(res, case, tier)
    if k == "c10_container":
        return c10_container_case(res, case)
    if k == "prim_repeat":
        from . import prim as P

        return c10_catalogue_repeat(res, P.decode_case(case["case"]), onp.random.Generator(onp.random.PCG64(17)))
    if k == "index":
        return c11_index_case(res, case, tier)
    if k == "mix":
        return c11_mix_case(res, case, tier)
    raise ValueError(k)


def run_shard(pid, tier, seed, idx, n):
    common.setup_repo()
    PROBES.install()
    PROBES.install_box_sanitizer()
    res = _new_result()
    res["info"]["probes"] = dict(PROBES.attached)
    total = N[pid][tier]
    t0 = time.time()
    for i in range(idx, total, n):
        rng = onp.random.Generator(onp.random.PCG64([seed, i, 11]))
        case = make_case(pid, rng, tier, i)
        res["evaluations"] += 1
        try:
            run_one(pid, res, case, tier)
        except Exception:
            _nj(res, "harness_error")
            res["sets"].setdefault("harness_errors", set()).add(traceback.format_exc()[-400:])
    if pid == "C10":
        from ..gen import catalogue

        crng = onp.random.Generator(onp.random.PCG64([seed, 0, 113]))
        cs = [c for c in catalogue.all_cases(crng, cx=False) if c.get("argnum") is not None and c["form"] != "special" and c.get("point", "regular") == "regular"]
        if tier == "thorough":
            cs += [c for c in catalogue.all_cases(crng, cx=True) if c.get("argnum") is not None and c["form"] != "special"]
        res["info"]["catalogue_cases"] = len(cs)
        for i in range(idx, len(cs), n):
            res["evaluations"] += 1
            try:
                c10_catalogue_repeat(res, cs[i], onp.random.Generator(onp.random.PCG64([seed, i, 127])))
            except Exception:
                _nj(res, "harness_error")
                res["sets"].setdefault("harness_errors", set()).add(traceback.format_exc()[-400:])
    if pid == "C03":
        rng = onp.random.Generator(onp.random.PCG64([seed, idx, 13]))
        c03_toposort(res, rng, (3000 if tier == "quick" else 50000) // n)
        if idx == 2 % n:
            c03_guards_and_depth(res)
    res["sets"] = {k: sorted(v) for k, v in res["sets"].items()}
    res["counters"]["wall_ms"] = int((time.time() - t0) * 1000)
    return res


def replay(pid, case):
    common.setup_repo()
    PROBES.install()
    PROBES.install_box_sanitizer()
    res = _new_result()
    res["evaluations"] = 1
    run_one(pid, res, case, "thorough")
    res["sets"] = {k: sorted(v) for k, v in res["sets"].items()}
    return res


def post(pid, tier, agg):
    out = []
    c = agg["counters"]
    if agg["not_judged"].get("harness_error", 0) > 0.02 * max(1, agg["evaluations"]):
        out.append("harness errors on %d cases" % agg["not_judged"]["harness_error"])
    if pid == "C03":
        if c.get("rule_applications_observed", 0) < 1000:
            out.append("P-node/P-pass observed too few rule applications (%d): probes detached?" % c.get("rule_applications_observed", 0))
        if c.get("toposort_dags", 0) < 100:
            out.append("toposort monitor did not run")
    if pid == "C10":
        if c.get("closure_calls_compared", 0) < 500:
            out.append("too few closure calls compared")
        if c.get("acc:shared+dense", 0) + c.get("acc:owned+dense", 0) == 0:
            out.append("no fan-in accumulation observed")
    if pid == "C11":
        need = ["acc:none+sparse", "acc:none+dense", "acc:shared+sparse", "acc:shared+dense", "acc:owned+sparse", "acc:owned+dense"]
        missing = [k for k in need if not c.get(k)]
        if missing:
            out.append("accumulation branches never reached: %s" % missing)
    return out
