"""Engine `history` (C19): results are independent of call history, including failed calls.

Fault enumeration: k-th primitive call of the forward evaluation, k-th rule application of the backward
pass, trace exit (warning promoted to error), and source-free failpoints (sys.monitoring LINE events
inside autograd/) at *every* line event of each victim program; faults escape to top level or are caught
by an enclosing differentiation which retries. After every fault canaries are compared bitwise with
the values of a fresh interpreter."""
import json
import os
import subprocess
import sys
import traceback
import warnings

import numpy as onp

from .. import common
from ..common import sig_key

LEVEL = "fault_enumeration"
RULE = "Long histories: 2**16+5 inner differentiations inside one open outer differentiation (once per worker process) must each still depend on the outer variable. Canary differentiations (outcomes under warnings-as-errors evaluated first, nested scalar derivative exposing level confusion, Hessian, container gradient, jvp, sparse/dense mix, checkpoint, deriv-of-grad, FFT Jacobian, rfft/irfft gradients, r_/c_, eigh eigenvectors, the bundled checker on a rule off by 5e-5) together with the ambient process state (np.geterr, print options, warnings filter count, recursion limit, simple module-level constants of every autograd module) are evaluated in a fresh subprocess (reference) and again after every fault / history step in a long-lived process; equality is bitwise. Faults: every k-th user-primitive call of 3 forward programs, every k-th rule application of their backward passes, trace exit via warning->error, and a private exception raised at every LINE event inside autograd/ of 3 victim programs (exhaustive per victim), each escaping to top level or caught by an enclosing differentiation that retries (depth 1-3, both modes); re-entrant use inside rules and forward functions; random histories mixing canaries, failing calls, primitive registrations, deprecated APIs, operator-object reuse, flatten / flatten_func / optimizer steps on trees with empty containers, grad_named on same-named functions, a transient fault in a rule (maker or closure) of a non-first argument followed by a retry with the same closure, an integer-typed traced value in a rule-less position followed by the float case (still loud), user code memoising on traced scalars across differentiations, with registry snapshots and the warnings filter list compared before the harness restores it; the whole G-prim catalogue pulled back / pushed forward twice in one process (catalogue order, then reverse order, then twice under warnings-as-errors) and once more in a fresh interpreter in reverse order, outcomes (bits or exception type) compared per configuration. Non-trivial iff a fault was actually injected (exception observed) or a history step executed; distinct = distinct (fault class, victim, fault index) resp. history signatures."
ASSUMPTIONS = ["asynchronous exceptions between bytecodes of one line are not injected (LINE granularity)", "bitwise reproducibility across processes assumes single-threaded BLAS (OMP/OPENBLAS threads = 1, set by the runner)"]
EXHAUSTIVE = {"C19": "all LINE fault points of each victim; all k for forward-call and rule-application faults"}


def nshards(pid, tier):
    return 16


def _new_result():
    return {"evaluations": 0, "judged": {}, "violations": [], "not_judged": {}, "counters": {}, "sets": {}, "samples": [], "info": {}}


class Fault(Exception):
    pass


# ---------------------------------------------------------------- canaries


def canaries():
    import autograd.numpy as anp
    from autograd import checkpoint, deriv, elementwise_grad, grad, hessian, jacobian, make_jvp, make_vjp
    import autograd.numpy.fft as afft

    x3 = onp.array([0.3, -1.2, 0.8])
    W = onp.array([[0.2, -0.5, 0.3], [0.7, 0.1, -0.4]])
    c = onp.array([1.5, -0.5])

    def K1():
        return grad(lambda x: x * grad(lambda z: x * z**3)(2.0))(1.0)

    def K2():
        return hessian(lambda x: anp.sum(x**3 * x[::-1]))(x3)

    def K3():
        f = lambda p: anp.sum(p["w"] ** 2) * p["b"][0] + anp.sum(anp.sin(p["b"][1]))
        return grad(f)({"w": x3, "b": (0.7, onp.array([0.1, 0.2]))})

    def K4():
        return make_jvp(lambda x: anp.cumsum(x) * x[0])(x3)(onp.array([1.0, -2.0, 0.5]))

    def K5():
        return grad(lambda x: anp.sum(x[onp.array([0, 0, 2])]) + anp.sum(x**2) + anp.sum(x[1:] * c))(x3)

    def K6():
        net = lambda x: anp.sum(anp.tanh(anp.dot(W, anp.tanh(x))))
        return grad(checkpoint(net))(x3)

    def K7():
        return deriv(lambda x: grad(lambda y: anp.sin(x * y))(x))(0.7)

    def K8():
        k = onp.array([0.5, -0.25, 0.1, 0.0])
        conv = lambda x: anp.real(afft.ifft(afft.fft(x) * afft.fft(k)))
        return jacobian(conv)(onp.array([0.3, -1.2, 0.8, 0.4]))

    def K9():
        return make_jvp(lambda x: grad(lambda y: anp.sum(anp.sin(x * y)))(x) * x)(x3)(onp.ones(3))[1]

    def K10():
        return elementwise_grad(lambda x: anp.where(x > 0, x**2, anp.exp(x)))(x3)

    def K11():
        # the bundled checker on a rule that is off by 5e-5 (relative): rejected in a fresh interpreter
        from autograd.extend import defvjp, primitive
        from autograd.test_util import check_grads

        P = primitive(lambda x: x * 2.0)
        defvjp(P, lambda ans, x: lambda g: g * 2.0001)
        state = onp.random.get_state()
        onp.random.seed(12345)
        try:
            check_grads(P, modes=["rev"], order=1)(onp.array([0.7, -1.3, 2.1]))
            return onp.array(1.0)  # accepted
        except AssertionError:
            return onp.array(0.0)  # rejected
        finally:
            onp.random.set_state(state)

    def K12():
        return grad(lambda x: anp.sum(anp.abs(afft.rfft(x)) ** 2))(onp.array([0.3, -1.2, 0.8, 0.4]))

    def K13():
        z = onp.array([0.3 + 0.1j, -1.2 + 0.4j, 0.8 - 0.2j])
        return grad(lambda t: anp.sum(afft.irfft(z * t) ** 2))(0.9)

    def K14():
        return grad(lambda x: anp.sum(anp.r_[x, x * 2.0] ** 2) + anp.sum(anp.c_[x, x] * 1.5))(x3)

    def K15():
        a = onp.array([[2.0, 0.3, 0.1], [0.3, 1.0, 0.2], [0.1, 0.2, 3.0]])
        return grad(lambda t: anp.sum(anp.linalg.eigh(a * t)[1][:, 0] * onp.array([1.0, 2.0, 3.0])) + anp.sum(anp.sqrt(t * onp.array([1.0, 4.0]))))(0.8)

    def K0():
        # outcomes with warnings promoted to errors (evaluated FIRST in every process: a warn-once flag makes
        # the first evaluation differ from all later ones). 0.0 = raised, otherwise a checksum of the value
        out = []
        with warnings.catch_warnings():
            warnings.simplefilter("error")
            for thunk in (lambda: grad(lambda x: anp.sum(anp.r_[x, x * 2.0] ** 2))(x3), lambda: grad(lambda x: anp.sum(anp.c_[x, x] ** 2))(x3), lambda: grad(lambda x: 3.0)(1.0),
                          lambda: grad(lambda x: anp.sum(anp.sqrt(x)))(onp.array([0.0, 4.0])), lambda: make_jvp(lambda x: anp.sum(anp.r_[x, 1.0]))(x3)(x3)[1],
                          lambda: grad(lambda x: anp.sum(anp.linalg.norm(anp.outer(x, x), "nuc")))(x3), lambda: elementwise_grad(lambda x: anp.where(x > 0, anp.log(x), x))(onp.array([0.0, 1.0]))):
                try:
                    out.append(float(onp.sum(onp.asarray(thunk(), dtype=float))) + 1.0)
                except Exception:
                    out.append(0.0)
        return onp.array(out)

    return {"K0": K0, "K1": K1, "K2": K2, "K3": K3, "K4": K4, "K5": K5, "K6": K6, "K7": K7, "K8": K8, "K9": K9, "K10": K10, "K11": K11, "K12": K12, "K13": K13, "K14": K14, "K15": K15}


def ambient_state():
    """Process-wide state that a differentiation call must leave as it found it: NumPy's floating-point error
    handling and print options, the warnings filter list, the recursion limit, and every simple module-level
    constant of the loaded autograd modules (tolerances, flags)."""
    st = {"np.geterr": repr(sorted(onp.geterr().items())), "np.printoptions": repr(sorted((k, repr(v)) for k, v in onp.get_printoptions().items())), "recursionlimit": sys.getrecursionlimit(), "warnings.filters": len(warnings.filters)}
    for name, mod in sorted(sys.modules.items()):
        if (name == "autograd" or name.startswith("autograd.")) and mod is not None:
            for k, v in sorted(vars(mod).items()):
                if k.startswith("__"):
                    continue
                if isinstance(v, (int, float, complex, str, bool, type(None))) or (isinstance(v, (tuple, frozenset)) and len(v) < 20 and all(isinstance(t, (int, float, str, bool, type(None))) for t in v)):
                    st["%s.%s" % (name, k)] = repr(v)
                elif callable(v) and getattr(v, "__module__", None) == name and (getattr(v, "__defaults__", None) or getattr(v, "__kwdefaults__", None)):
                    # default argument values (a mutable default that a call modifies is state that survives the call)
                    try:
                        st["%s.%s.__defaults__" % (name, k)] = repr((v.__defaults__, v.__kwdefaults__))[:300]
                    except Exception:
                        pass
    return st


def canary_values(names=None):
    out = {}
    with warnings.catch_warnings():
        warnings.simplefilter("ignore")
        for k, f in canaries().items():
            if names and k not in names:
                continue
            out[k] = common.enc(common.tree_map(lambda l: onp.asarray(l), f()) if True else None)
    return out


def fresh_reference():
    env = dict(os.environ)
    env["PYTHONPATH"] = common.VERIF_DIR + os.pathsep + env.get("PYTHONPATH", "")
    r = subprocess.run([sys.executable, "-m", "vf.engines.history", "--canaries"], capture_output=True, text=True, timeout=300, cwd=common.VERIF_DIR, env=env)
    if r.returncode != 0:
        raise RuntimeError("reference subprocess failed: " + r.stderr[-500:])
    return json.loads(r.stdout.strip().splitlines()[-1])


class CanaryChecker:
    def __init__(self, ref):
        self.ref = ref
        self.funs = canaries()
        self.names = sorted(self.funs)
        self.i = 0
        self.checked = 0
        self.ambient = None

    def check(self, names):
        """Return None or (name, detail)."""
        amb = ambient_state()
        if self.ambient is None:
            self.ambient = amb
        elif any(amb[k] != self.ambient[k] for k in amb if k in self.ambient):
            # (constants of modules imported later simply appear: only keys seen before are compared)
            ch = sorted(k for k in amb if k in self.ambient and amb[k] != self.ambient[k])
            detail = "process-wide state changed: " + "; ".join("%s: %s -> %s" % (k, self.ambient.get(k), amb.get(k)) for k in ch[:6])
            # restore what can be restored so that one leak is reported once
            try:
                onp.seterr(**dict(eval(self.ambient["np.geterr"])))
            except Exception:
                pass
            self.ambient = ambient_state()
            return "ambient", detail
        else:
            for k in amb:
                self.ambient.setdefault(k, amb[k])
        with warnings.catch_warnings():
            warnings.simplefilter("ignore")
            for k in names:
                try:
                    v = common.enc(common.tree_map(lambda l: onp.asarray(l), self.funs[k]()))
                except Exception as e:
                    return k, "canary raised %s: %s" % (type(e).__name__, str(e)[:200])
                self.checked += 1
                if v != self.ref[k]:
                    return k, "canary %s differs from the fresh-interpreter value: %s vs %s" % (k, common.brief(common.dec(v), 200), common.brief(common.dec(self.ref[k]), 200))
        return None

    def rotating(self, full=False):
        if full:
            return self.check(self.names)
        self.i += 1
        return self.check(["K1", self.names[self.i % len(self.names)]])


# ---------------------------------------------------------------- source-free failpoints


class LineFaults:
    """sys.monitoring LINE failpoints restricted to files under autograd/."""

    def __init__(self):
        self.mon = sys.monitoring
        self.tool = 4
        self.count = 0
        self.target = None
        self.armed = False
        self.fired_at = None
        self.root = os.path.join(common.REPO, "autograd") + os.sep
        self.installed = False

    def install(self):
        if self.installed:
            return
        m = self.mon
        m.use_tool_id(self.tool, "vf-failpoints")
        m.register_callback(self.tool, m.events.LINE, self.cb)
        self.installed = True

    def cb(self, code, line):
        if not code.co_filename.startswith(self.root):
            return self.mon.DISABLE
        if not self.armed:
            return None
        self.count += 1
        if self.target is not None and self.count == self.target:
            self.fired_at = "%s:%d" % (os.path.basename(code.co_filename), line)
            raise Fault("failpoint %d at %s" % (self.count, self.fired_at))
        return None

    def run(self, fn, target):
        m = self.mon
        self.count = 0
        self.target = target
        self.fired_at = None
        self.armed = True
        m.set_events(self.tool, m.events.LINE)
        try:
            return fn()
        finally:
            self.armed = False
            m.set_events(self.tool, 0)

    def uninstall(self):
        if self.installed:
            self.mon.set_events(self.tool, 0)
            self.mon.free_tool_id(self.tool)
            self.installed = False


def victims():
    import autograd.numpy as anp
    from autograd import grad, make_jvp, make_vjp
    from autograd.extend import defjvp, defvjp, primitive

    up = primitive(lambda x: x * 1.5)
    defvjp(up, lambda ans, x: lambda g: g * 1.5)
    defjvp(up, lambda g, ans, x: g * 1.5)
    x3 = onp.array([0.3, -1.2, 0.8])

    def V1(caught):
        # K1 with try/except retry around the inner differentiation
        def outer(x):
            def inner():
                return grad(lambda z: x * z**3)(2.0)

            if caught:
                try:
                    i = inner()
                except Fault:
                    i = inner()
            else:
                i = inner()
            return x * i

        return grad(outer)(1.0)

    def V2(caught):
        # Hessian-vector product with a user primitive in the middle; inner failure caught at depth 2
        f = lambda x: anp.sum(anp.tanh(up(x)) ** 2)
        v = onp.array([1.0, -0.5, 0.25])

        def gdotv(x):
            def inner():
                return anp.sum(grad(f)(x) * v)

            if caught:
                try:
                    return inner()
                except Fault:
                    return inner()
            return inner()

        return grad(gdotv)(x3)

    def V3(caught):
        # container program with make_jvp inside grad
        def loss(p):
            def inner():
                return make_jvp(lambda t: anp.sum(anp.sin(t * p["a"])) * p["b"][0])(x3)(onp.ones(3))[1]

            if caught:
                try:
                    j = inner()
                except Fault:
                    j = inner()
            else:
                j = inner()
            return j * anp.sum(p["a"] ** 2)

        return grad(loss)({"a": onp.array([0.5, 0.1, -0.3]), "b": (2.0,)})

    def V4(caught):
        # forward-over-forward with a failing inner jvp caught at depth 2
        def outer(x):
            def inner():
                return make_jvp(lambda t: anp.sum(anp.exp(t * x) * up(t)))(x3)(onp.ones(3))[1]

            if caught:
                try:
                    i = inner()
                except Fault:
                    i = inner()
            else:
                i = inner()
            return i * anp.sum(x)

        return make_jvp(outer)(onp.array([0.2, 0.1, -0.3]))(onp.array([1.0, 0.5, -1.0]))[1]

    def V5(caught):
        # jacobian (one vjp closure mapped over a basis) of a function with sparse + dense uses
        from autograd import jacobian

        def f(x):
            def inner():
                return anp.concatenate([x[onp.array([0, 0, 2])] * x[1:2], anp.cumsum(x)])

            if caught:
                try:
                    return inner()
                except Fault:
                    return inner()
            return inner()

        return jacobian(f)(x3)

    def V6(caught):
        # checkpointed function differentiated twice
        from autograd import checkpoint

        net = checkpoint(lambda x: anp.sum(anp.tanh(up(x)) * x))

        def gsum(x):
            def inner():
                return anp.sum(grad(net)(x) ** 2)

            if caught:
                try:
                    return inner()
                except Fault:
                    return inner()
            return inner()

        return grad(gsum)(x3)

    return {"V1": V1, "V2": V2, "V3": V3, "V4": V4, "V5": V5, "V6": V6}


def run_line_faults(res, chk, idx, n, tier):
    LF = LineFaults()
    LF.install()
    try:
        V = victims()
        for vname, vf in V.items():
            for caught in (True, False):
                with warnings.catch_warnings():
                    warnings.simplefilter("ignore")
                    ref = common.enc(common.tree_map(onp.asarray, vf(caught)))
                    LF.run(lambda: vf(caught), None)
                total = LF.count
                res["info"]["line_events:%s:%s" % (vname, "caught" if caught else "escaping")] = total
                step = 1 if tier == "thorough" or total <= 2500 else 1
                for k in range(1 + idx, total + 1, n):
                    res["evaluations"] += 1
                    sig = {"engine": "history", "fault": "line", "victim": vname, "caught": caught}
                    case = {"kind": "line", "victim": vname, "caught": caught, "k": k}
                    outcome = None
                    with warnings.catch_warnings():
                        warnings.simplefilter("ignore")
                        try:
                            r = LF.run(lambda: vf(caught), k)
                            outcome = "returned"
                        except Fault:
                            outcome = "escaped"
                        except Exception as e:
                            outcome = "other:" + type(e).__name__
                    if LF.fired_at is None:
                        res["not_judged"]["fault_not_reached"] = res["not_judged"].get("fault_not_reached", 0) + 1
                        continue
                    res["counters"]["faults_injected"] = res["counters"].get("faults_injected", 0) + 1
                    res["counters"]["line_" + outcome.split(":")[0]] = res["counters"].get("line_" + outcome.split(":")[0], 0) + 1
                    res["sets"].setdefault("fault_sites", set()).add(LF.fired_at.split(":")[0])
                    if outcome == "returned":
                        # an enclosing differentiation caught the failure and continued: result must be right
                        if common.enc(common.tree_map(onp.asarray, r)) != ref:
                            s = dict(sig, symptom="history_dependence", where="enclosing_result")
                            res["violations"].append({"sig": s, "case": case, "detail": "victim %s returned %s after a caught inner failure at %s; fault-free value %s" % (vname, common.brief(r), LF.fired_at, common.brief(common.dec(ref)))})
                            continue
                    elif outcome.startswith("other"):
                        res["sets"].setdefault("secondary_exceptions", set()).add("%s at %s" % (outcome, LF.fired_at))
                    bad = chk.rotating(full=(k % 97 == 0))
                    if bad:
                        s = dict(sig, symptom="history_dependence", canary=bad[0])
                        res["violations"].append({"sig": s, "case": case, "detail": "after failpoint %d (%s, %s): %s" % (k, LF.fired_at, outcome, bad[1])})
                        # state is corrupted: later comparisons would all fail; stop this victim
                        break
                    k2 = sig_key(dict(sig, site=LF.fired_at))
                    res["judged"][k2] = res["judged"].get(k2, 0) + 1
                    if res["evaluations"] % 400 == 1:
                        res["samples"].append({"victim": vname, "caught_by_enclosing": caught, "fault_index": k, "site": LF.fired_at, "outcome": outcome})
    finally:
        LF.uninstall()


# ---------------------------------------------------------------- forward-call / rule faults / trace exit


def run_bomb_faults(res, chk, idx, n):
    import autograd.numpy as anp
    from autograd import grad, make_jvp
    from autograd.extend import defjvp, defvjp, primitive

    state = {"fwd": 0, "bwd": 0, "fwd_at": None, "bwd_at": None}

    def raw(x):
        state["fwd"] += 1
        if state["fwd"] == state["fwd_at"]:
            raise Fault("forward call %d" % state["fwd"])
        return x * 1.1 + 0.1

    bomb = primitive(raw)

    def mk(ans, x):
        def vjp(g):
            state["bwd"] += 1
            if state["bwd"] == state["bwd_at"]:
                raise Fault("rule application %d" % state["bwd"])
            return g * 1.1

        return vjp

    defvjp(bomb, mk)

    def jv(g, ans, x):
        state["bwd"] += 1
        if state["bwd"] == state["bwd_at"]:
            raise Fault("jvp rule %d" % state["bwd"])
        return g * 1.1

    defjvp(bomb, jv)
    x3 = onp.array([0.3, -1.2, 0.8])

    def prog_chain(x):
        y = x
        for i in range(5):
            y = anp.sin(bomb(y)) + y
        return anp.sum(y)

    def prog_nested(x):
        inner = grad(lambda z: anp.sum(bomb(z * x) ** 2))(x)
        return anp.sum(bomb(inner) * bomb(x))

    def prog_fan(x):
        a = bomb(x)
        return anp.sum(bomb(a) * bomb(a) + bomb(a[::-1]))

    progs = {"chain": prog_chain, "nested": prog_nested, "fan": prog_fan}
    jobs = []
    for pname, p in progs.items():
        for mode in ("rev", "fwd"):
            for depth in (1, 2):
                jobs.append((pname, p, mode, depth))
    for j, (pname, p, mode, depth) in enumerate(jobs):
        if j % n != idx:
            continue

        def run(caught):
            def call(x):
                return p(x)

            def diff(f, x):
                if mode == "rev":
                    return grad(f)(x)
                return make_jvp(f)(x)(onp.ones(3))[1]

            if depth == 1:
                return diff(call, x3)

            def outer(x):
                def inner():
                    return anp.sum(diff(call, x) * x)

                if caught:
                    try:
                        return inner()
                    except Fault:
                        return inner()
                return inner()

            return grad(outer)(x3)

        for caught in (False, True) if depth == 2 else (False,):
            state.update(fwd=0, bwd=0, fwd_at=None, bwd_at=None)
            with warnings.catch_warnings():
                warnings.simplefilter("ignore")
                try:
                    ref = common.enc(common.tree_map(onp.asarray, run(caught)))
                except NotImplementedError:
                    continue
            nf, nb = state["fwd"], state["bwd"]
            for which, tot in (("fwd_at", nf), ("bwd_at", nb)):
                for k in range(1, tot + 1):
                    res["evaluations"] += 1
                    state.update(fwd=0, bwd=0, fwd_at=None, bwd_at=None)
                    state[which] = k
                    sig = {"engine": "history", "fault": "user_call" if which == "fwd_at" else "rule_application", "prog": pname, "mode": mode, "depth": depth, "caught": caught}
                    case = {"kind": "bomb", "prog": pname, "mode": mode, "depth": depth, "caught": caught, "which": which, "k": k}
                    outcome = None
                    with warnings.catch_warnings():
                        warnings.simplefilter("ignore")
                        try:
                            r = run(caught)
                            outcome = "returned"
                        except Fault:
                            outcome = "escaped"
                        except Exception as e:
                            outcome = "other:" + type(e).__name__
                    state.update(fwd_at=None, bwd_at=None)
                    res["counters"]["faults_injected"] = res["counters"].get("faults_injected", 0) + 1
                    res["counters"]["bomb_" + outcome.split(":")[0]] = res["counters"].get("bomb_" + outcome.split(":")[0], 0) + 1
                    if outcome == "returned" and common.enc(common.tree_map(onp.asarray, r)) != ref:
                        s = dict(sig, symptom="history_dependence", where="enclosing_result")
                        res["violations"].append({"sig": s, "case": case, "detail": "result after caught failure %s vs fault-free %s" % (common.brief(r), common.brief(common.dec(ref)))})
                        continue
                    bad = chk.rotating()
                    if bad:
                        s = dict(sig, symptom="history_dependence", canary=bad[0])
                        res["violations"].append({"sig": s, "case": case, "detail": "after %s=%d (%s): %s" % (which, k, outcome, bad[1])})
                        break
                    k2 = sig_key(dict(sig, k=k))
                    res["judged"][k2] = 1


def run_retry_same_closure(res, chk, idx, n):
    """A VJP function whose backward pass failed at the k-th rule is called again: the retry (same
    closure, same recorded graph) must return what a fault-free call returns. All k, several graphs."""
    import autograd.numpy as anp
    from autograd.core import make_vjp
    from autograd.extend import defvjp, primitive

    state = {"n": 0, "at": None}

    def mk(scale):
        def maker(ans, x):
            def vjp(g):
                state["n"] += 1
                if state["n"] == state["at"]:
                    raise Fault("rule application %d" % state["n"])
                return g * scale

            return vjp

        return maker

    b1 = primitive(lambda x: x * 1.1)
    defvjp(b1, mk(1.1))
    b2 = primitive(lambda x: x * 0.7 + 0.2)
    defvjp(b2, mk(0.7))
    x3 = onp.array([0.3, -1.2, 0.8])
    progs = {
        "fan_out": lambda x: anp.sum(b1(x) * b2(x) + b1(b2(x))),
        "diamond": lambda x: (lambda a: anp.sum(b1(a) * anp.sin(a) + b2(a) * a))(b2(x) * x),
        "sparse_mix": lambda x: anp.sum(b1(x)[onp.array([0, 0, 2])]) + anp.sum(b2(x) ** 2) + anp.sum(b1(x[1:]) * x[:-1]),
        "vector_out": lambda x: anp.concatenate([b1(x) * x, b2(b1(x))]),
        "chain": lambda x: b1(b2(b1(b2(x)))) * x,
    }
    for j, (pname, f) in enumerate(progs.items()):
        if j % n != idx % n:
            continue
        with warnings.catch_warnings():
            warnings.simplefilter("ignore")
            vjp, val = make_vjp(f, x3)
            g = onp.ones(onp.shape(val)) * 0.5 if onp.shape(val) else 1.0
            state.update(n=0, at=None)
            ref = common.enc(onp.asarray(vjp(g)))
            total = state["n"]
            for k in range(1, total + 1):
                res["evaluations"] += 1
                sig = {"engine": "history", "fault": "rule_application_retry_same_closure", "prog": pname}
                case = {"kind": "retry", "prog": pname, "k": k}
                state.update(n=0, at=k)
                try:
                    vjp(g)
                    outcome = "returned"
                except Fault:
                    outcome = "escaped"
                state.update(n=0, at=None)
                res["counters"]["faults_injected"] = res["counters"].get("faults_injected", 0) + 1
                try:
                    r = common.enc(onp.asarray(vjp(g)))
                except Exception as e:
                    s = dict(sig, symptom="history_dependence")
                    res["violations"].append({"sig": s, "case": case, "detail": "retry of the same VJP function after a failure at rule %d raised %s: %s" % (k, type(e).__name__, str(e)[:150])})
                    continue
                if r != ref:
                    s = dict(sig, symptom="history_dependence")
                    res["violations"].append({"sig": s, "case": case, "detail": "retry of the same VJP function after a failure at rule %d returned %s, fault-free %s" % (k, common.brief(common.dec(r)), common.brief(common.dec(ref)))})
                    continue
                fresh = common.enc(onp.asarray(make_vjp(f, x3)[0](g)))
                if fresh != ref:
                    s = dict(sig, symptom="history_dependence", where="fresh")
                    res["violations"].append({"sig": s, "case": case, "detail": "fresh make_vjp after the failure differs"})
                    continue
                # a closure whose VERY FIRST backward pass is the one that fails (nothing was computed before)
                vjp_new, _ = make_vjp(f, x3)
                state.update(n=0, at=k)
                try:
                    vjp_new(g)
                except Fault:
                    pass
                state.update(n=0, at=None)
                try:
                    r2 = common.enc(onp.asarray(vjp_new(g)))
                    r3 = common.enc(onp.asarray(vjp_new(g)))
                except Exception as e:
                    res["violations"].append({"sig": dict(sig, symptom="history_dependence", where="first_pass_failed"), "case": case, "detail": "a VJP function whose first backward pass failed at rule %d raised %s on the retry: %s" % (k, type(e).__name__, str(e)[:150])})
                    continue
                if r2 != ref or r3 != ref:
                    res["violations"].append({"sig": dict(sig, symptom="history_dependence", where="first_pass_failed"), "case": case, "detail": "a VJP function whose first backward pass failed at rule %d returns %s afterwards, fault-free %s" % (k, common.brief(common.dec(r2)), common.brief(common.dec(ref)))})
                    continue
                res["judged"][sig_key(dict(sig, k=k))] = 1
            # the closure built at top level is applied *inside* another differentiation; its backward
            # pass fails at the k-th rule, the enclosing function catches that and goes on with a nested
            # differentiation that closes over the enclosing variable
            from autograd import grad as _grad

            def enclosing(t, fail):
                try:
                    r_ = vjp(g)
                    extra = anp.sum(onp.asarray(r_)) * 0.0
                except Fault:
                    extra = 0.0
                inner = _grad(lambda z: anp.sum(z * t) ** 2)(t * 0.5 + 0.1)
                return anp.sum(t * inner) + extra

            state.update(n=0, at=None)
            ref_enc = common.enc(onp.asarray(_grad(lambda t: enclosing(t, False))(x3)))
            for k in range(1, total + 1):
                res["evaluations"] += 1
                sig = {"engine": "history", "fault": "rule_application_in_closure_applied_inside_enclosing", "prog": pname}
                case = {"kind": "retry", "prog": pname, "k": k, "phase": "enclosing"}
                state.update(n=0, at=k)
                try:
                    r = common.enc(onp.asarray(_grad(lambda t: enclosing(t, True))(x3)))
                except Exception as e:
                    state.update(n=0, at=None)
                    res["violations"].append({"sig": dict(sig, symptom="history_dependence"), "case": case, "detail": "enclosing differentiation raised %s after catching a failure at rule %d of a VJP built outside: %s" % (type(e).__name__, k, str(e)[:150])})
                    continue
                state.update(n=0, at=None)
                res["counters"]["faults_injected"] = res["counters"].get("faults_injected", 0) + 1
                if r != ref_enc:
                    res["violations"].append({"sig": dict(sig, symptom="history_dependence", where="enclosing_result"), "case": case, "detail": "enclosing result %s after a caught failure at rule %d of a VJP built at top level; fault-free %s" % (common.brief(common.dec(r)), k, common.brief(common.dec(ref_enc)))})
                    continue
                bad = chk.rotating()
                if bad:
                    res["violations"].append({"sig": dict(sig, symptom="history_dependence", canary=bad[0]), "case": case, "detail": bad[1]})
                    break
                res["judged"][sig_key(dict(sig, k=k))] = 1


def registry_snapshot():
    import autograd.core as core
    import autograd.tracer as tracer

    snap = {}
    snap["vjps"] = {id(k): id(v) for k, v in core.primitive_vjps.items()}
    snap["jvps"] = {id(k): id(v) for k, v in core.primitive_jvps.items()}
    snap["notrace"] = {repr(k): sorted(id(f) for f in v) for k, v in tracer.notrace_primitives.items()}
    snap["boxes"] = {repr(k): id(v) for k, v in tracer.Box.type_mappings.items()}
    snap["vspaces"] = {repr(k): id(v) for k, v in core.VSpace.mappings.items()}
    snap["top"] = getattr(tracer.trace_stack, "top", -1)
    return snap


# events that themselves register a user primitive: expected growth of (primitive_vjps, primitive_jvps)
_LONG_RUN = {"done": False}
REGISTERS = {"maker_fault_then_retry": (3, 0), "fail_check_grads_vjp_only": (1, 0), "fail_rule": (1, 0), "reentrant_rule": (1, 0), "reentrant_forward": (1, 0), "register": (1, 1), "deprecated": (1, 0)}


def snap_diff(a, b):
    out = []
    for k in ("vjps", "jvps", "notrace", "boxes", "vspaces"):
        if a[k] != b[k]:
            out.append("%s: %d -> %d entries%s" % (k, len(a[k]), len(b[k]), "" if len(a[k]) != len(b[k]) else " (changed values)"))
    return out


def run_histories(res, chk, seed, idx, n, tier):
    import autograd.numpy as anp
    from autograd import grad, hessian, make_jvp, make_vjp
    from autograd.extend import defjvp, defvjp, primitive
    from autograd.util import quick_grad_check

    total = 240 if tier == "quick" else 4000
    x3 = onp.array([0.3, -1.2, 0.8])

    def ev_fail_user(rng):
        def f(x):
            y = anp.sin(x)
            if rng.uniform() < 2:
                raise Fault("user function")
            return anp.sum(y)

        (grad(f) if rng.uniform() < 0.5 else (lambda x: make_jvp(f)(x)(onp.ones(3))))(x3)

    def ev_fail_nested(rng):
        def f(x):
            return grad(lambda z: anp.sum(z * x) + {}["missing"])(x)

        grad(lambda x: anp.sum(f(x)))(x3)

    def ev_fail_rule(rng):
        p = primitive(lambda x: x * 2.0)
        defvjp(p, lambda ans, x: lambda g: (_ for _ in ()).throw(Fault("rule")))
        grad(lambda x: anp.sum(p(anp.sin(x))))(x3)

    def ev_fail_norule(rng):
        p = primitive(lambda x: x * 2.0)
        grad(lambda x: anp.sum(p(x)))(x3)

    def ev_fail_type(rng):
        grad(lambda x: x)("not differentiable")

    def ev_fail_nonscalar(rng):
        grad(lambda x: x * 2.0)(x3)

    def ev_fail_warning(rng):
        with warnings.catch_warnings():
            warnings.simplefilter("error")
            (grad(lambda x: 3.0) if rng.uniform() < 0.5 else (lambda x: make_jvp(lambda t: 3.0)(x)(onp.ones(3))))(x3)

    def ev_fail_warning_nested(rng):
        with warnings.catch_warnings():
            warnings.simplefilter("error")
            grad(lambda x: anp.sum(x) * grad(lambda z: 2.0)(1.0))(x3)

    def ev_fail_setitem(rng):
        def f(x):
            x[0] = 1.0
            return anp.sum(x)

        grad(f)(x3.copy())

    def ev_fail_caught_inside(rng):
        def f(x):
            try:
                grad(lambda z: {}["k"] + z)(1.0)
            except KeyError:
                pass
            return anp.sum(x**2)

        r = grad(f)(x3)
        if not onp.array_equal(r, 2 * x3):
            raise AssertionError("enclosing result wrong after caught inner failure: %r" % (r,))

    def ev_reentrant_rule(rng):
        p = primitive(lambda x: x**2)
        defvjp(p, lambda ans, x: lambda g: g * grad(lambda t: t**2)(x))
        r = grad(lambda x: p(x) * 1.0)(1.5)
        if r != 3.0:
            raise AssertionError("re-entrant rule result %r" % (r,))

    def ev_reentrant_forward(rng):
        p = primitive(lambda x: float(grad(lambda t: t**3)(x)))
        defvjp(p, lambda ans, x: lambda g: g * 6 * x)
        r = grad(lambda x: p(x) + x)(0.5)
        if abs(r - 4.0) > 1e-15:
            raise AssertionError("re-entrant forward result %r" % (r,))

    def ev_recursion(rng):
        def d(f, k):
            return f if k == 0 else grad(d(f, k - 1))

        r = d(lambda x: x**5, 3)(1.0)
        if r != 60.0:
            raise AssertionError("recursive grad^3 of x^5 at 1 = %r" % (r,))

    def ev_register(rng):
        p = primitive(lambda x: x * 3.0)
        defvjp(p, lambda ans, x: lambda g: g * 3.0)
        defjvp(p, lambda g, ans, x: g * 3.0)
        r = grad(lambda x: p(x))(1.0)
        if r != 3.0:
            raise AssertionError("new primitive grad %r" % (r,))
        return "registered"

    def ev_deprecated(rng):
        with warnings.catch_warnings():
            warnings.simplefilter("ignore")
            from autograd import primitive as dprim

            p = dprim(lambda x: x * 4.0)
            p.defvjp(lambda g, ans, vs, gvs, x: g * 4.0)
            r = grad(lambda x: p(x))(1.0)
            quick_grad_check(lambda x: anp.sum(anp.sin(x)), x3, verbose=False)
            if r != 4.0:
                raise AssertionError("deprecated defvjp grad %r" % (r,))
        return "registered"

    def ev_rfft_options(rng):
        # rarely used options of rules that keep helper arrays: norm="forward"/"ortho", several lengths
        import autograd.numpy.fft as afft

        xs = onp.array([0.3, -1.2, 0.8, 0.4])
        for nm in ("forward", "ortho", "backward", None):
            grad(lambda x: anp.sum(anp.abs(afft.rfft(x, norm=nm)) ** 2))(xs)
            grad(lambda x: anp.sum(anp.abs(afft.rfft(x, None, -1, nm)) ** 2))(xs)
            grad(lambda t: anp.sum(afft.irfft(onp.array([0.3 + 0.1j, -1.2 + 0.4j, 0.8 - 0.2j]) * t, norm=nm) ** 2))(0.9)
            grad(lambda x: anp.sum(anp.abs(afft.rfft2(anp.reshape(x, (2, 2)), norm=nm)) ** 2))(xs)

    def ev_fail_bad_cotangent(rng):
        # a pull-back handed a cotangent of the wrong shape fails somewhere inside the rule
        a = onp.array([[2.0, 0.3, 0.1], [0.3, 1.0, 0.2], [0.1, 0.2, 3.0]])
        which = int(rng.integers(0, 4))
        if which == 0:
            vj, _ = make_vjp(lambda m: anp.linalg.eigh(m))(a)
            vj((onp.ones(3), onp.ones((2, 5))))
        elif which == 1:
            vj, _ = make_vjp(lambda m: anp.linalg.svd(m, full_matrices=False))(a)
            vj((onp.ones((3, 3)), onp.ones(3), onp.ones((4, 2))))
        elif which == 2:
            vj, _ = make_vjp(lambda m: anp.linalg.inv(m))(a)
            vj(onp.ones((2, 5)))
        else:
            vj, _ = make_vjp(lambda m: anp.sqrt(anp.sum(m * m, axis=0)))(a)
            vj(onp.ones((4, 7)))

    def ev_warnings_as_errors(rng):
        # the same differentiations with warnings promoted to errors, twice: the outcome (value or the
        # exception type) must be the same both times
        outs = []
        for rep in range(2):
            with warnings.catch_warnings():
                warnings.simplefilter("error")
                o = []
                for thunk in (lambda: grad(lambda x: anp.sum(anp.r_[x, x * 2.0] ** 2))(x3), lambda: grad(lambda x: anp.sum(anp.c_[x, x] ** 2))(x3), lambda: grad(lambda x: anp.sum(anp.sqrt(x)))(onp.array([0.0, 4.0])),
                              lambda: grad(lambda x: 3.0)(1.0), lambda: grad(lambda x: anp.sum(anp.log(x)))(onp.array([0.0, 1.0]))):
                    try:
                        o.append(common.vhash(onp.asarray(thunk())))
                    except Exception as e:
                        o.append("raised:" + type(e).__name__)
                outs.append(o)
        if outs[0] != outs[1]:
            raise AssertionError("outcomes under warnings-as-errors differ between the first and the second evaluation: %s vs %s" % (outs[0], outs[1]))

    def ev_operator_object_reuse(rng):
        # one operator object (make_jvp(f), grad(f), value_and_grad(f), jacobian(f)) called several times - with other
        # points, other extra arguments, a failing call in between - while results of earlier calls (the lazily
        # evaluated pushforward in particular) are still in use: each result belongs to ITS call
        from autograd import jacobian, value_and_grad

        f = lambda x, c, scale=1.0: anp.sum(anp.sin(x * c)) * scale + anp.sum(x) * c[0]
        x1, c1 = onp.array([0.3, -1.2, 0.8]), onp.array([1.5, 0.5, -2.0])
        x2, c2 = onp.array([1.1, 0.4, -0.6]), onp.array([-0.5, 2.0, 1.0])
        v = onp.array([1.0, -2.0, 0.5])
        D = make_jvp(f)
        exp1 = make_jvp(f)(x1, c1, scale=1.3)(v)
        j1 = D(x1, c1, scale=1.3)
        j2 = D(x2, c2)
        try:
            D(x1, "not an array")(v)
        except Exception:
            pass
        r1 = j1(v)
        r2 = j2(v)
        exp2 = make_jvp(f)(x2, c2)(v)
        if not (common.bits_equal(onp.asarray(r1[0]), onp.asarray(exp1[0])) and common.bits_equal(onp.asarray(r1[1]), onp.asarray(exp1[1]))):
            raise AssertionError("pushforward obtained from make_jvp(f)(x1, c1) returns %r after the same operator object was called again, expected %r" % (r1, exp1))
        if not (common.bits_equal(onp.asarray(r2[1]), onp.asarray(exp2[1]))):
            raise AssertionError("second pushforward of one make_jvp(f) object: %r vs %r" % (r2, exp2))
        for mkop in (grad, value_and_grad, jacobian):
            op = mkop(f)
            a1 = op(x1, c1, scale=1.3)
            try:
                op(x1, "not an array")
            except Exception:
                pass
            a2 = op(x2, c2)
            a1b = op(x1, c1, scale=1.3)
            b1, b2 = mkop(f)(x1, c1, scale=1.3), mkop(f)(x2, c2)
            if common.vhash(a1) != common.vhash(b1) or common.vhash(a2) != common.vhash(b2) or common.vhash(a1b) != common.vhash(b1):
                raise AssertionError("%s(f) object reused across calls gives other results than fresh operator objects" % mkop.__name__)

    def ev_fail_check_grads_vjp_only(rng):
        # the bundled checker with its default modes on a primitive that has no forward rule: fails loudly
        from autograd.test_util import check_grads

        Pv = primitive(lambda x: x * 3.0)
        defvjp(Pv, lambda ans, x: lambda g: g * 3.0)
        check_grads(Pv)(onp.array([0.4, -0.9]))

    def ev_flatten_empty(rng):
        # the flattening helpers and an optimizer step on parameter trees that contain EMPTY containers
        from autograd.misc.flatten import flatten, flatten_func
        from autograd.misc.optimizers import adam, sgd

        for val in ((), [], {}, (x3, ()), {"w": x3, "extra": []}, [(), {"b": onp.array(0.5)}], ((), ((), [])), {"a": {}, "z": (x3, [])}):
            flat, unflatten = flatten(val)
            back = unflatten(flat)
            assert common.sdesc(back) == common.sdesc(val) or not common.leaves(val), "unflatten(flatten(v)) has another structure than v: %r" % (val,)
        ff, unfl, flat0 = flatten_func(lambda p, t: anp.sum(p["w"] ** 2) * t, {"w": x3, "extra": ()})
        assert abs(float(onp.sum(ff(flat0, 2.0))) - 2.0 * float(onp.sum(x3**2))) < 1e-12
        g = grad(lambda p, i: anp.sum(p["w"] ** 2))
        for opt in (sgd, adam):
            out = opt(g, {"w": x3.copy(), "extra": ()}, num_iters=2, step_size=0.01)
            assert onp.all(onp.abs(out["w"]) < onp.abs(x3)), "an optimizer step on a tree with an empty container did not shrink the parameters"

    def ev_named_same_qualname(rng):
        # selection by NAME on distinct functions that share module and qualified name (lambdas of one scope,
        # a function re-defined with reordered parameters): each call looks at the function it was given
        from autograd import grad_named

        fa = lambda w, s: anp.sum(anp.sin(w) * s)
        fb = lambda s, w: anp.sum(anp.sin(w) * s) * 2.0
        assert fa.__qualname__ == fb.__qualname__
        s0 = onp.array([1.0, 2.0, -1.0])
        pairs = [(fa, (x3, s0), onp.cos(x3) * s0), (fb, (s0, x3), 2.0 * onp.cos(x3) * s0)]
        if rng.uniform() < 0.5:
            pairs = pairs[::-1]
        for f_, args_, want in pairs:
            got = grad_named(f_, "w")(*args_)
            assert onp.allclose(got, want, rtol=1e-13, atol=1e-13), "grad_named(<lambda>, 'w') = %r, expected %r" % (got, want)

        def make(order):
            if order:
                def loss(w, s):
                    return anp.sum(w * w * s)
            else:
                def loss(s, w):
                    return anp.sum(w * w * s) * 3.0
            return loss

        for order in ((True, False) if rng.uniform() < 0.5 else (False, True)):
            f_ = make(order)
            got = grad_named(f_, "w")(*((x3, s0) if order else (s0, x3)))
            assert onp.allclose(got, (2.0 if order else 6.0) * x3 * s0, rtol=1e-13, atol=1e-13), "grad_named(loss, 'w') after a re-definition with reordered parameters: %r" % (got,)

    def ev_maker_fault_then_retry(rng):
        # a transient fault in the rule (maker) of a NON-first argument during the first backward pass of a closure,
        # caught by the caller, who then uses the SAME closure again: the answer of a fresh closure
        from autograd.extend import defvjp_argnum, defvjp_argnums

        for api in ("defvjp", "defvjp_argnum", "defvjp_argnums"):
            state = {"fail": True}

            bad_i, where = int(rng.integers(1, 3)), str(rng.choice(["maker", "closure"]))

            def rule(i, ans, x, y, z, bad_i=bad_i, where=where, state=state):
                if i == bad_i and where == "maker" and state["fail"]:
                    state["fail"] = False
                    raise MemoryError("transient")
                inner = (lambda g: g * y * z, lambda g: g * x * z * 2.0, lambda g: g * x * y)[i]

                def vjp_i(g):
                    if i == bad_i and where == "closure" and state["fail"]:
                        state["fail"] = False
                        raise MemoryError("transient")
                    return inner(g)

                return vjp_i

            Pm = primitive(lambda x, y, z: x * y * z + y * y * x * z - y * y * x * z + y * x * z)  # = 2 x y z; rule 1 says 2 x z
            if api == "defvjp":
                defvjp(Pm, *[(lambda i: lambda ans, x, y, z: rule(i, ans, x, y, z))(i) for i in range(3)])
            elif api == "defvjp_argnum":
                defvjp_argnum(Pm, lambda argnum, ans, args, kwargs: rule(argnum, ans, *args))
            else:
                defvjp_argnums(Pm, lambda argnums, ans, args, kwargs: (lambda fs: lambda g: tuple(f(g) for f in fs))([rule(i, ans, *args) for i in argnums]))
            f = lambda t: Pm(t[0], t[1], t[2]) * 1.0
            t0 = (1.5, -0.5, 2.0)
            vj = r = None
            for attempt in range(3):
                try:
                    if vj is None:
                        vj = make_vjp(f)(t0)[0]  # (the fault may already strike here, where rules are built)
                    r = vj(1.0)  # ... or here; the caller retries with whatever it already holds
                    break
                except MemoryError:
                    continue
            want = (t0[1] * t0[2], t0[0] * t0[2] * 2.0, t0[0] * t0[1])
            assert all(abs(float(a_) - b_) < 1e-12 for a_, b_ in zip(r, want)), "%s: after a transient fault in a rule the same VJP function returns %r, a fresh one %r" % (api, r, want)

    def ev_integer_use_then_missing_rule(rng):
        # a primitive that lacks a rule for one position (the bounds of np.clip), first used with an INTEGER-typed
        # traced value there, then differentiated w.r.t. a float there: still the loud failure of a fresh process
        xs_ = onp.array([0.2, 0.9, 1.7])
        try:
            grad(lambda t: anp.sum(anp.clip(t * 1.0, (t * 2.0).astype(int) - 1, 1.5)))(xs_)
        except (NotImplementedError, KeyError):
            pass  # loud already (no rule for that position, whatever the dtype)
        for k in range(2):
            try:
                r = grad(lambda lo: anp.sum(anp.clip(xs_, lo, 1.5)))(0.5)
            except (NotImplementedError, KeyError):
                continue
            raise AssertionError("differentiating np.clip w.r.t. its lower bound returned %r instead of raising (a fresh interpreter raises)" % (r,))

    def ev_memo_keyed_by_traced_scalars(rng):
        # user code that memoises on its (traced) scalar arguments in a dict that outlives the differentiation:
        # a later differentiation at equal values must not be handed values of the finished one
        memo = {}

        def slow(u):
            if u not in memo:
                memo[u] = anp.sin(u) * u
            return memo[u]

        f = lambda t: slow(t) * 2.0 + slow(t * 1.0)
        for k in range(3):
            v = (0.7, 1.3, 0.7)[k]
            got = grad(f)(v)
            want = 3.0 * (onp.cos(v) * v + onp.sin(v))
            assert abs(float(got) - want) < 1e-12, "call %d of a memoised function: gradient %r, expected %r" % (k, got, want)
            f(v)  # a plain evaluation in between stores plain numbers under the same values

    def ev_long_run_of_traces(rng):
        # round 9: a LONG history. Inside ONE outer differentiation, the first use in a process takes
        # 2**16 + 5 inner derivatives (every later use 1500 more): whatever counts, numbers or recycles
        # traces wraps past 8- and 16-bit widths and past CPython's cached small integers while the outer
        # level is still open, at every alignment; each inner result must still depend on the outer variable
        from autograd.tracer import isbox

        n_tr = 1500 if _LONG_RUN["done"] else (1 << 16) + 5
        _LONG_RUN["done"] = True
        v = float(rng.uniform(0.5, 1.5))

        def outer(x):
            tot = x * 0.0
            for i in range(n_tr):
                r = grad(lambda y: x * y**3)(2.0)
                if not isbox(r):
                    raise AssertionError("inner derivative number %d taken inside one outer differentiation no longer depends on the outer variable: %r" % (i, r))
                if i % 97 == 0:
                    tot = tot + r
            return tot

        got = grad(outer)(v)
        res["counters"]["long_run_traces"] = res["counters"].get("long_run_traces", 0) + n_tr
        want = 12.0 * len(range(0, n_tr, 97))
        assert abs(float(got) - want) < 1e-9 * want, "after %d inner traces: %r, expected %r" % (n_tr, got, want)
        got2 = grad(grad(grad(lambda x: x**4)))(v)
        assert abs(float(got2) - 24.0 * v) < 1e-12, "after %d more traces: third derivative of x^4 = %r, expected %r" % (n_tr, got2, 24.0 * v)

    def ev_ok_work(rng):
        hessian(lambda x: anp.sum(anp.sin(x) * x))(x3)
        make_vjp(lambda x: anp.cumsum(x))(x3)[0](onp.ones(3))

    events = {"fail_user": ev_fail_user, "fail_nested": ev_fail_nested, "fail_rule": ev_fail_rule, "fail_norule": ev_fail_norule, "fail_type": ev_fail_type, "fail_nonscalar": ev_fail_nonscalar,
              "fail_warning": ev_fail_warning, "fail_warning_nested": ev_fail_warning_nested, "fail_setitem": ev_fail_setitem, "caught_inside": ev_fail_caught_inside, "reentrant_rule": ev_reentrant_rule,
              "reentrant_forward": ev_reentrant_forward, "recursion": ev_recursion, "register": ev_register, "deprecated": ev_deprecated, "ok_work": ev_ok_work, "rfft_options": ev_rfft_options, "fail_bad_cotangent": ev_fail_bad_cotangent, "warnings_as_errors": ev_warnings_as_errors, "fail_check_grads_vjp_only": ev_fail_check_grads_vjp_only, "operator_object_reuse": ev_operator_object_reuse, "flatten_empty": ev_flatten_empty, "named_same_qualname": ev_named_same_qualname, "maker_fault_then_retry": ev_maker_fault_then_retry, "integer_use_then_missing_rule": ev_integer_use_then_missing_rule, "memo_keyed_by_traced_scalars": ev_memo_keyed_by_traced_scalars, "long_run_of_traces": ev_long_run_of_traces}
    names = sorted(events)
    for h in range(idx, total, n):
        rng = onp.random.Generator(onp.random.PCG64([seed, h, 79]))
        L = int(rng.integers(3, 14))
        hist = [str(rng.choice(names)) for _ in range(L)]
        res["evaluations"] += 1
        sig = {"engine": "history", "fault": "history", "events": sorted(set(hist))}
        case = {"kind": "history", "seed": [seed, h, 79], "hist": hist}
        snap0 = registry_snapshot()
        bad = None
        for step, ev in enumerate(hist):
            before = registry_snapshot()
            out = None
            try:
                with warnings.catch_warnings():
                    warnings.simplefilter("ignore")
                    filters0 = list(warnings.filters)
                    out = events[ev](rng)
                    # (compared before the context restores the list: a filter installed by the call would
                    # otherwise be undone by this harness and survive in a user's process)
                    if list(warnings.filters) != filters0:
                        added = [f_ for f_ in warnings.filters if f_ not in filters0]
                        bad = ("ambient_state_changed", "step %d (%s) left the process-wide warnings filter list changed: %d -> %d entries, new: %s" % (step, ev, len(filters0), len(warnings.filters), str(added)[:200]))
                if bad:
                    break
                if ev.startswith("fail_"):
                    bad = ("not_loud", "event %s did not raise" % ev)
                    break
            except AssertionError as e:
                bad = ("history_dependence", "step %d (%s): %s" % (step, ev, e))
                break
            except Exception as e:
                if not ev.startswith("fail_"):
                    bad = ("history_dependence", "step %d (%s) raised %s: %s" % (step, ev, type(e).__name__, str(e)[:200]))
                    break
                res["sets"].setdefault("failure_types", set()).add("%s:%s" % (ev, type(e).__name__))
            after = registry_snapshot()
            exp_v, exp_j = REGISTERS.get(ev, (0, 0))
            if (exp_v, exp_j) == (0, 0):
                d = snap_diff(before, after)
                if d:
                    bad = ("registry_changed", "step %d (%s) changed process-global tables: %s" % (step, ev, d))
                    break
            else:
                # the event itself registers a user primitive: exactly its entries, nothing else
                grow_v = len(after["vjps"]) - len(before["vjps"])
                grow_j = len(after["jvps"]) - len(before["jvps"])
                old_same = all(after["vjps"].get(k) == v for k, v in before["vjps"].items()) and all(after["jvps"].get(k) == v for k, v in before["jvps"].items())
                if grow_v != exp_v or grow_j != exp_j or not old_same or after["boxes"] != before["boxes"] or after["vspaces"] != before["vspaces"] or after["notrace"] != before["notrace"]:
                    bad = ("registry_changed", "step %d (%s) registers one user primitive but tables changed by vjps %+d (expected %+d) jvps %+d (expected %+d), existing entries intact: %s" % (step, ev, grow_v, exp_v, grow_j, exp_j, old_same))
                    break
            res["counters"]["history_steps"] = res["counters"].get("history_steps", 0) + 1
            if rng.uniform() < 0.4:
                b = chk.rotating()
                if b:
                    bad = ("history_dependence", "after step %d (%s) of %s: %s" % (step, ev, hist, b[1]))
                    sig["canary"] = b[0]
                    break
        if not bad:
            b = chk.rotating(full=True)
            if b:
                bad = ("history_dependence", "after history %s: %s" % (hist, b[1]))
                sig["canary"] = b[0]
        if bad:
            s = dict(sig, symptom=bad[0])
            res["violations"].append({"sig": s, "case": case, "detail": bad[1]})
            if bad[0] == "history_dependence":
                break
            continue
        res["judged"][sig_key(sig)] = res["judged"].get(sig_key(sig), 0) + 1
        res["counters"]["trace_top_after"] = max(res["counters"].get("trace_top_after", -1), registry_snapshot()["top"])
        if h % 60 == 0:
            res["samples"].append({"history": hist, "trace_stack_top_after": registry_snapshot()["top"]})


def _catalogue_prepared(seed, idx, n, tier):
    from ..gen import catalogue
    from . import prim as P

    crng = onp.random.Generator(onp.random.PCG64([seed, 0, 131]))
    cs = [c for c in catalogue.all_cases(crng, cx=False) if c.get("argnum") is not None and c["form"] != "special" and c.get("point", "regular") == "regular"]
    if tier == "thorough":
        cs += [c for c in catalogue.all_cases(crng, cx=True) if c.get("argnum") is not None and c["form"] != "special"]
    # kind / precision mixes (float16/32, complex64 next to float64 of the same shapes): anything cached per
    # shape must not leak precision or kind from one call into the next
    cs += [c for c in P.extra_struct_cases(crng) if c.get("argnum") is not None][:: (3 if tier == "quick" else 1)]
    mine = [c for k, c in enumerate(cs) if k % n == idx]
    prepared = []
    for k, c in enumerate(mine):
        try:
            prep, out = P.prepare(c)
        except Exception:
            continue
        if out is not None:
            continue
        ncall, acall, x0, y0, F = prep
        g = common.rand_like(onp.random.Generator(onp.random.PCG64([seed, k, 137])), y0)
        v = common.rand_like(onp.random.Generator(onp.random.PCG64([seed, k, 139])), x0)
        prepared.append((c, acall, x0, g, v))
    return prepared


def _catalogue_outcome(acall, x0, g, v, strict):
    from autograd.core import make_jvp, make_vjp

    out = []
    for mode in ("rev", "fwd"):
        try:
            with warnings.catch_warnings():
                warnings.simplefilter("error" if strict else "ignore")
                with onp.errstate(all="ignore"):
                    r = make_vjp(acall, x0)[0](g) if mode == "rev" else make_jvp(acall, x0)(v)[1]
            out.append("ok:" + common.vhash(r))
        except Exception as e:
            out.append("raised:" + type(e).__name__)
    return out


def run_catalogue_twice(res, seed, idx, n, tier):
    """State that survives between calls (caches keyed too coarsely, helper arrays changed in place, warn-once
    flags): every configuration of the G-prim catalogue is pulled back twice in one process - first in
    catalogue order, then (after everything else ran) in reverse order, the second time also under
    warnings-as-errors - and the outcomes (bits of the result, or the exception type) must coincide."""
    from autograd.core import make_jvp, make_vjp

    from ..gen import catalogue
    from . import prim as P

    prepared = _catalogue_prepared(seed, idx, n, tier)
    outcome = _catalogue_outcome
    first = [outcome(a, x, g, v, False) for (_, a, x, g, v) in prepared]
    # the same configurations in a FRESH interpreter, evaluated in the opposite order: a cache filled by one
    # configuration and read by another shows up as a difference between the two processes
    fresh_rev = None
    try:
        env = dict(os.environ)
        env["PYTHONPATH"] = common.VERIF_DIR + os.pathsep + env.get("PYTHONPATH", "")
        r = subprocess.run([sys.executable, "-m", "vf.engines.history", "--catalogue-pass", str(seed), str(idx), str(n), tier], capture_output=True, text=True, timeout=900, cwd=common.VERIF_DIR, env=env)
        if r.returncode == 0:
            fresh_rev = json.loads(r.stdout.strip().splitlines()[-1])
        else:
            res["sets"].setdefault("harness_errors", set()).add("catalogue pass subprocess: " + r.stderr[-300:])
    except Exception:
        res["sets"].setdefault("harness_errors", set()).add(traceback.format_exc()[-300:])
    if fresh_rev is None or len(fresh_rev) != len(prepared):
        res["not_judged"]["harness_error"] = res["not_judged"].get("harness_error", 0) + 1
        fresh_rev = None
    order = list(range(len(prepared)))[::-1]
    second = {}
    strict1 = {}
    strict2 = {}
    for i in order:
        _, a, x, g, v = prepared[i]
        second[i] = outcome(a, x, g, v, False)
    for i in order:
        _, a, x, g, v = prepared[i]
        strict1[i] = outcome(a, x, g, v, True)
    for i in range(len(prepared)):
        _, a, x, g, v = prepared[i]
        strict2[i] = outcome(a, x, g, v, True)
    for i, (c, a, x, g, v) in enumerate(prepared):
        res["evaluations"] += 1
        sig = {"engine": "history", "fault": "catalogue_twice", "prim": c["prim"], "ns": c["ns"], "kw": {k: P.classify(t) for k, t in c["kwargs"].items()}}
        case = {"kind": "catalogue_twice", "case": P.encode_case(c), "seed": seed}
        if fresh_rev is not None and first[i] != fresh_rev[i]:
            res["violations"].append({"sig": dict(sig, symptom="history_dependence", fresh="reverse_order"), "case": case, "detail": "this process (catalogue order) %s, fresh interpreter evaluating the catalogue in reverse order %s" % (first[i], fresh_rev[i])})
        elif first[i] != second[i]:
            res["violations"].append({"sig": dict(sig, symptom="history_dependence"), "case": case, "detail": "first evaluation %s, evaluation after the rest of the catalogue ran %s" % (first[i], second[i])})
        elif strict1[i] != strict2[i]:
            res["violations"].append({"sig": dict(sig, symptom="history_dependence", strict=True), "case": case, "detail": "under warnings-as-errors: first evaluation %s, second %s" % (strict1[i], strict2[i])})
        else:
            res["judged"][sig_key(sig)] = res["judged"].get(sig_key(sig), 0) + 1
    res["counters"]["catalogue_twice_cases"] = res["counters"].get("catalogue_twice_cases", 0) + len(prepared)


def run_shard(pid, tier, seed, idx, n):
    common.setup_repo()
    res = _new_result()
    ref = fresh_reference()
    chk = CanaryChecker(ref)
    b = chk.check(chk.names)
    if b:
        res["violations"].append({"sig": {"engine": "history", "fault": "none", "symptom": "history_dependence", "canary": b[0]}, "case": {"kind": "startup"}, "detail": "canary differs from fresh interpreter before any history: " + b[1]})
        return res
    try:
        run_histories(res, chk, seed, idx, n, tier)
        run_bomb_faults(res, chk, idx, n)
        run_retry_same_closure(res, chk, idx, n)
        run_line_faults(res, chk, idx, n, tier)
        run_catalogue_twice(res, seed, idx, n, tier)
        b = chk.rotating(full=True)
        if b:
            res["violations"].append({"sig": {"engine": "history", "fault": "catalogue_twice", "symptom": "history_dependence", "canary": b[0]}, "case": {"kind": "startup"}, "detail": "after the catalogue ran twice: " + b[1]})
    except Exception:
        res["not_judged"]["harness_error"] = res["not_judged"].get("harness_error", 0) + 1
        res["sets"].setdefault("harness_errors", set()).add(traceback.format_exc()[-600:])
    res["counters"]["canary_evaluations"] = chk.checked
    # max-type counters are not additive
    t = res["counters"].pop("trace_top_after", None)
    if t is not None:
        res["sets"].setdefault("trace_top_after", set()).add(str(t))
    res["sets"] = {k: sorted(v) for k, v in res["sets"].items()}
    return res


def replay(pid, case):
    common.setup_repo()
    res = _new_result()
    ref = fresh_reference()
    chk = CanaryChecker(ref)
    k = case["kind"]
    if k == "catalogue_twice":
        run_catalogue_twice(res, case.get("seed", 0), 0, 1, "quick")
        res["violations"] = [v for v in res["violations"] if v["case"].get("case") == case.get("case")]
        return res
    if k == "line":
        LF = LineFaults()
        LF.install()
        try:
            vf = victims()[case["victim"]]
            with warnings.catch_warnings():
                warnings.simplefilter("ignore")
                refv = common.enc(common.tree_map(onp.asarray, vf(case["caught"])))
                try:
                    r = LF.run(lambda: vf(case["caught"]), case["k"])
                    if common.enc(common.tree_map(onp.asarray, r)) != refv:
                        res["violations"].append({"sig": {"engine": "history", "fault": "line", "symptom": "history_dependence"}, "case": case, "detail": "victim result differs"})
                except Exception:
                    pass
        finally:
            LF.uninstall()
        b = chk.check(chk.names)
        if b:
            res["violations"].append({"sig": {"engine": "history", "fault": "line", "symptom": "history_dependence", "canary": b[0]}, "case": case, "detail": b[1]})
    elif k == "bomb":
        run_bomb_faults(res, chk, 0, 1)
        res["violations"] = [v for v in res["violations"] if v["case"].get("prog") == case["prog"] and v["case"].get("mode") == case["mode"]][:1]
    elif k == "retry":
        run_retry_same_closure(res, chk, 0, 1)
        res["violations"] = [v for v in res["violations"] if v["case"].get("prog") == case["prog"]][:1]
    elif k == "history":
        run_histories(res, chk, case["seed"][0], case["seed"][1], 10**9, "quick")
    else:
        b = chk.check(chk.names)
        if b:
            res["violations"].append({"sig": {"engine": "history", "symptom": "history_dependence"}, "case": case, "detail": b[1]})
    if not res["violations"]:
        res["judged"]["replay"] = 1
    res["sets"] = {k: sorted(v) for k, v in res["sets"].items()}
    return res


def post(pid, tier, agg):
    out = []
    if agg["not_judged"].get("harness_error", 0) > 0:
        out.append("harness errors: %d" % agg["not_judged"]["harness_error"])
    c = agg["counters"]
    if c.get("faults_injected", 0) < 1000:
        out.append("fewer than 1000 faults injected (%d)" % c.get("faults_injected", 0))
    if c.get("history_steps", 0) < 500:
        out.append("too few history steps")
    if c.get("canary_evaluations", 0) < 2000:
        out.append("too few canary evaluations")
    return out


if __name__ == "__main__":
    if "--catalogue-pass" in sys.argv:
        warnings.filterwarnings("ignore")
        common.setup_repo()
        k0 = sys.argv.index("--catalogue-pass")
        seed_, idx_, n_, tier_ = int(sys.argv[k0 + 1]), int(sys.argv[k0 + 2]), int(sys.argv[k0 + 3]), sys.argv[k0 + 4]
        prepared_ = _catalogue_prepared(seed_, idx_, n_, tier_)
        outs_ = [None] * len(prepared_)
        for i_ in range(len(prepared_))[::-1]:
            _, a_, x_, g_, v_ = prepared_[i_]
            outs_[i_] = _catalogue_outcome(a_, x_, g_, v_, False)
        print(json.dumps(outs_))
        sys.exit(0)
    if "--canaries" in sys.argv:
        warnings.filterwarnings("ignore")
        common.setup_repo()
        print(json.dumps(canary_values()))
