"""Engine `nesting` (C08): nested differentiation expressions judged against O-sym (exact)."""
import itertools
import time
import traceback
import warnings

import numpy as onp

from .. import common
from .. import symdiff as S
from ..common import sig_key
from ..probes import PROBES

LEVEL = "exploration"
RULE = "Nested differentiation expressions: depth 2 and 3 enumerate exhaustively (operator per level from {grad, deriv, elementwise_grad, jacobian, make_vjp+1, make_jvp+1}) x (subset of enclosing variables each inner body mentions) x 3 templates (inner result scaled / inside sin / used twice) with the inner evaluation point depending on enclosing variables; depth 4 and vector-valued inner variables (elementwise bodies, sum-reduced) are sampled; depth 2 (exhaustive) and depth 3 (sampled) additionally with every level evaluated in a worker thread started and joined inside the enclosing traced function, and with array-valued variables at every level (elementwise operator counterparts; inner bodies close over enclosing arrays; reference per component). The depth-2 grid and sampled depth-3 nestings once more in four dialects: every variable read and inner derivative value passed through copy.copy / copy.deepcopy, and every elementary function replaced by a user primitive registered through autograd.extend (all operators) or the deprecated .defvjp / .defgrad methods (reverse operators). Towers of depth 3-6 through one elementary function (sinc at 0 / inside its series region / generic, sin, exp) with random forward / reverse assignment, against termwise derivatives of the power series. Reference: independent symbolic differentiator. Non-trivial iff the symbolic reference is finite and non-zero and the inner body mentions its own variable non-linearly. distinct = distinct (depth, operator sequence, mention masks, template, vector flag)."
ASSUMPTIONS = ["expression grammar is the O-sym op set (+,-,*,/,sin,cos,exp,tanh,pow); random sub-expressions are drawn per case", "reference evaluated in float64; tolerance 1e-9 relative"]
EXHAUSTIVE = {"C08": "depth 2 and depth 3: all 6^depth operator assignments x all mention subsets x 3 templates"}

OPNAMES = ["grad", "deriv", "egrad", "jacobian", "vjp1", "jvp1"]
VECOPS = ["egrad", "vjp_ones", "jvp_ones", "grad_sum"]


def nshards(pid, tier):
    return 16


def ag_ops():
    import autograd.numpy as anp
    from autograd import deriv, elementwise_grad, grad, jacobian, make_jvp, make_vjp

    ops = {
        "grad": lambda f, a: grad(f)(a),
        "deriv": lambda f, a: deriv(f)(a),
        "egrad": lambda f, a: elementwise_grad(f)(a),
        "jacobian": lambda f, a: jacobian(f)(a),
        "vjp1": lambda f, a: make_vjp(f)(a)[0](1.0),
        "jvp1": lambda f, a: make_jvp(f)(a)(1.0)[1],
        "vec:egrad": lambda f, z: elementwise_grad(f)(z),
        "vec:vjp_ones": lambda f, z: make_vjp(f)(z)[0](onp.ones(z.shape)),
        "vec:jvp_ones": lambda f, z: make_jvp(f)(z)(onp.ones(z.shape))[1],
        "vec:grad_sum": lambda f, z: grad(lambda t: anp.sum(f(t)))(z),
    }
    return ops


def allvec_ops():
    """Every level's variable is a vector and every operator its elementwise counterpart (all bodies are
    elementwise, so component i of the result is the scalar nested derivative at component i): inner bodies
    close over ARRAY-valued enclosing variables."""
    import autograd.numpy as anp
    from autograd import elementwise_grad, grad, jacobian, make_jvp, make_vjp

    return {
        "grad": lambda f, z: grad(lambda t: anp.sum(f(t)))(z),
        "deriv": lambda f, z: make_jvp(f)(z)(onp.ones(onp.shape(z)))[1],
        "egrad": lambda f, z: elementwise_grad(f)(z),
        "jacobian": lambda f, z: anp.diag(jacobian(f)(z)),
        "vjp1": lambda f, z: make_vjp(f)(z)[0](onp.ones(onp.shape(z))),
        "jvp1": lambda f, z: make_jvp(f)(z)(onp.ones(onp.shape(z)))[1],
    }


def run_allvec(res, spec, anp):
    rng = onp.random.Generator(onp.random.PCG64(spec["eseed"]))
    body = build(rng, 0, spec["depth"], spec["ops"], spec["masks"], spec["template"], const_at=2 if spec.get("const_at") else 0)
    pts = [round(float(rng.uniform(0.3, 1.2)) * float(rng.choice([-1, 1])), 4) for _ in range(3)]
    sig = {"engine": "nesting", "depth": spec["depth"], "ops": spec["ops"], "masks": spec["masks"], "template": spec["template"], "allvec": True}
    case = {"spec": spec}
    res["evaluations"] += 1
    if spec.get("const_at"):
        sig["const_at"] = True
    refs = []
    for ci, p in enumerate(pts):
        S.reset_memo()
        try:
            r = float(S.evaluate(S.resolve(("D", spec["ops"][0], "x0", _map_consts(body, lambda t: t[ci]), S.C(p))), {}))
        except Exception as e:
            res["not_judged"]["oracle_error:" + type(e).__name__] = res["not_judged"].get("oracle_error:" + type(e).__name__, 0) + 1
            return
        if not onp.isfinite(r) or S.max_intermediate() > 1e4:
            res["not_judged"]["ill_scaled"] = res["not_judged"].get("ill_scaled", 0) + 1
            return
        refs.append(r)
    ops = allvec_ops()
    show = lambda: S.show(("D", spec["ops"][0], "x0", _map_consts(body, lambda t: t[0]), S.C(pts[0])))[:600]
    body = _map_consts(body, lambda t: onp.array(t))
    try:
        with warnings.catch_warnings():
            warnings.simplefilter("ignore")
            got = ops[spec["ops"][0]](lambda x0: S.eval_autograd(body, {"x0": x0}, anp, ops), onp.array(pts))
    except Exception as e:
        s = dict(sig, symptom="exception:" + type(e).__name__)
        res["violations"].append({"sig": s, "case": case, "detail": traceback.format_exc()[-500:] + "\nexpr (vector form of): " + show()})
        return
    if common.find_boxes(got):
        res["violations"].append({"sig": dict(sig, symptom="tracer_leak"), "case": case, "detail": show()})
        return
    g = onp.asarray(got)
    if g.shape != (3,) or g.dtype.kind != "f":
        res["violations"].append({"sig": dict(sig, symptom="wrong_shape"), "case": case, "detail": "result %r dtype %s; expr %s" % (got, g.dtype, show())})
        return
    refs = onp.array(refs)
    if not onp.all(onp.abs(g - refs) <= 1e-9 * (1.0 + onp.abs(refs))):
        s = dict(sig, symptom="wrong_value")
        res["violations"].append({"sig": s, "case": case, "detail": "autograd %r reference %r; vector form of %s" % (g.tolist(), refs.tolist(), show())})
        res["judged"][sig_key(s)] = res["judged"].get(sig_key(s), 0) + 1
        return
    if not onp.any(refs != 0.0):
        res["not_judged"]["trivial_zero"] = res["not_judged"].get("trivial_zero", 0) + 1
        return
    res["counters"]["allvec_nestings"] = res["counters"].get("allvec_nestings", 0) + 1
    res["judged"][sig_key(sig)] = res["judged"].get(sig_key(sig), 0) + 1


def checkpointed_ops(ops):
    """Reverse-mode operators applied to checkpoint(f) instead of f (checkpoint must be transparent at every
    nesting level; it has no forward rule, so only all-reverse nestings use it)."""
    from autograd import checkpoint

    out = dict(ops)
    for k in ("grad", "egrad", "jacobian", "vjp1"):
        out[k] = (lambda op: (lambda f, a: op(checkpoint(f), a)))(ops[k])
    return out


_USER_MATH = {}


def _user_math(api):
    """sin / cos / exp / tanh / integer power as USER primitives (raw NumPy inside), their rules registered
    through autograd.extend (api 'new': defvjp + defjvp) or through the deprecated per-primitive methods
    (api 'old': .defvjp(g, ans, vs, gvs, x) and .defgrad; reverse mode only). Rules are written with
    autograd.numpy, so they are differentiable to any order."""
    if api in _USER_MATH:
        return _USER_MATH[api]
    import autograd.numpy as anp

    raw = {"sin": lambda x: onp.sin(x), "cos": lambda x: onp.cos(x), "exp": lambda x: onp.exp(x), "tanh": lambda x: onp.tanh(x), "pow": lambda x, n: onp.asarray(x) ** n if onp.ndim(x) else x**n}
    der = {
        "sin": lambda ans, x: anp.cos(x),
        "cos": lambda ans, x: -anp.sin(x),
        "exp": lambda ans, x: ans,
        "tanh": lambda ans, x: 1.0 - ans * ans,
        "pow": lambda ans, x, n: n * x ** (n - 1),
    }
    out = {}
    if api == "new":
        from autograd.extend import defjvp, defvjp, primitive

        for k in raw:
            f = primitive(raw[k])
            d = der[k]
            defvjp(f, (lambda d: lambda ans, *a: lambda g: g * d(ans, *a))(d))
            defjvp(f, (lambda d: lambda g, ans, *a: g * d(ans, *a))(d))
            out["fn:" + k] = f
    else:
        from autograd.core import primitive  # the wrapper that still carries the deprecated methods

        with warnings.catch_warnings():
            warnings.simplefilter("ignore")
            for i, k in enumerate(raw):
                f = primitive(raw[k])
                d = der[k]
                if i % 2 == 0:
                    f.defvjp((lambda d: lambda g, ans, vs, gvs, *a: g * d(ans, *a))(d))
                else:
                    f.defgrad((lambda d: lambda ans, *a: lambda g: g * d(ans, *a))(d))
                out["fn:" + k] = f
    _USER_MATH[api] = out
    return out


def dialect_ops(ops, dialect):
    """The same nestings written in another 'dialect': every variable read and every inner derivative value
    passed through copy.copy / copy.deepcopy (identity-valued Python protocols on tracers), or every
    elementary function replaced by a user-defined primitive."""
    import copy

    out = dict(ops)
    if dialect in ("copy", "deepcopy"):
        cp = copy.copy if dialect == "copy" else copy.deepcopy
        out["wrap:v"] = cp
        out["wrap:D"] = cp
    elif dialect == "user_new":
        out.update(_user_math("new"))
    elif dialect == "user_old":
        out.update(_user_math("old"))
    else:
        raise ValueError(dialect)
    return out


def threaded_ops(ops):
    """The same operators, each evaluated in a worker thread that is started (and joined) at the point of
    the call - i.e. inside the enclosing traced function when the operator is an inner level."""
    import threading

    def wrap(fn):
        def run(f, a):
            box = {}

            def target():
                try:
                    box["r"] = fn(f, a)
                except BaseException as e:  # re-raised in the caller
                    box["e"] = e

            t = threading.Thread(target=target)
            t.start()
            t.join()
            if "e" in box:
                raise box["e"]
            return box["r"]

        return run

    return {k: wrap(v) for k, v in ops.items()}


def rand_expr(rng, vars_, depth=2):
    if depth == 0 or (vars_ and rng.uniform() < 0.25) or not vars_:
        if vars_ and rng.uniform() < 0.8:
            return S.V(vars_[int(rng.integers(0, len(vars_)))])
        return S.C(round(float(rng.uniform(0.5, 1.5)), 3))
    k = int(rng.integers(0, 8))
    a = rand_expr(rng, vars_, depth - 1)
    if k == 0:
        return ("+", a, rand_expr(rng, vars_, depth - 1))
    if k == 1:
        return ("*", a, rand_expr(rng, vars_, depth - 1))
    if k == 2:
        return ("sin", a)
    if k == 3:
        return ("cos", a)
    if k == 4:
        return ("tanh", a)
    if k == 5:
        return ("exp", ("*", S.C(0.3), a))
    if k == 6:
        return ("pow", a, 2)
    return ("-", a, rand_expr(rng, vars_, depth - 1))


def innermost(rng, mentioned, own, independent=False):
    others = [v for v in mentioned if v != own]
    if independent:
        # the inner function ignores its own variable but uses enclosing (traced) ones: derivative is 0
        return ("+", rand_expr(rng, others, 2) if others else S.C(0.7), ("*", S.C(2.0), S.V(others[0]) if others else S.C(1.0)))
    e = ("pow", S.V(own), 3)
    for o in others:
        e = ("*", e, S.V(o))
    e2 = ("sin", ("*", S.V(own), rand_expr(rng, others, 1) if others else S.C(0.7)))
    extra = rand_expr(rng, mentioned, 2)
    return ("+", ("+", e, e2), ("*", S.V(own), extra))


def _map_consts(e, fn):
    """Rebuild an expression tree with every per-component constant ('c', (a, b, c)) replaced by fn(tuple)."""
    if isinstance(e, tuple):
        if len(e) == 2 and e[0] == "c" and isinstance(e[1], tuple):
            return ("c", fn(e[1]))
        return tuple(_map_consts(t, fn) for t in e)
    if isinstance(e, list):
        return [_map_consts(t, fn) for t in e]
    return e


def build(rng, level, depth, ops, masks, template, vec_level=None, vecop=None, indep=False, const_at=0):
    """const_at: 0 = every inner evaluation point depends on the enclosing variable; 1 = points are plain
    constants (the inner variable's value is then NOT a tracer of the enclosing level, while the body still
    closes over enclosing variables); 2 = per-component constants (all-vector family)."""
    own = "x%d" % level
    enclosing = ["x%d" % i for i in range(level)]
    mask = masks[level] if level < len(masks) else (1 << level) - 1
    mentioned = [v for i, v in enumerate(enclosing) if (mask >> i) & 1] + [own]
    if level == depth - 1:
        return innermost(rng, mentioned, own, indep)
    inner_body = build(rng, level + 1, depth, ops, masks, template, vec_level, vecop, indep, const_at)
    scope = enclosing + [own]
    nxt = "x%d" % (level + 1)
    if vec_level == level + 1:
        ats = [("+", ("*", S.C(0.3 + 0.2 * i), S.V(own)), rand_expr(rng, scope, 1)) for i in range(3)]
        ws = [round(float(w), 3) for w in rng.uniform(0.5, 1.5, size=3)]
        N = ("Dvec", vecop, nxt, inner_body, ats, ws)
    else:
        at = ("+", ("*", S.C(round(float(rng.uniform(0.4, 0.9)), 3)), S.V(own)), rand_expr(rng, scope, 1))
        if const_at == 1:
            at = S.C(round(float(rng.uniform(0.4, 1.3)), 3))
        elif const_at == 2:
            at = ("c", tuple(round(float(t), 3) for t in rng.uniform(0.4, 1.3, size=3)))
        N = ("D", ops[level + 1], nxt, inner_body, at)
    E1 = ("+", S.V(own), rand_expr(rng, mentioned, 2))
    E2 = rand_expr(rng, mentioned, 2)
    if template == 0:
        return ("+", ("*", E1, N), E2)
    if template == 1:
        return ("+", ("sin", ("*", N, ("*", S.C(0.2), E1))), E2)
    return ("+", ("*", ("*", S.C(0.1), N), N), ("*", ("tanh", E1), N))


def enumerate_specs(tier, seed):
    specs = []
    # depth 2: exhaustive
    for ops in itertools.product(OPNAMES, repeat=2):
        for m1 in range(2):
            for t in range(3):
                specs.append({"depth": 2, "ops": list(ops), "masks": [0, m1], "template": t})
    for ops in itertools.product(OPNAMES, repeat=3):
        for m1 in range(2):
            for m2 in range(4):
                for t in range(3):
                    specs.append({"depth": 3, "ops": list(ops), "masks": [0, m1, m2], "template": t})
    rng = onp.random.Generator(onp.random.PCG64([seed, 4242]))
    n4 = 1500 if tier == "quick" else 20000
    for _ in range(n4):
        specs.append({"depth": 4, "ops": [str(o) for o in rng.choice(OPNAMES, size=4)], "masks": [0, int(rng.integers(0, 2)), int(rng.integers(0, 4)), int(rng.integers(0, 8))], "template": int(rng.integers(0, 3))})
    nv = 1500 if tier == "quick" else 20000
    for _ in range(nv):
        d = int(rng.integers(2, 4))
        specs.append({"depth": d, "ops": [str(o) for o in rng.choice(OPNAMES, size=d)], "masks": [0] + [int(rng.integers(0, 1 << k)) for k in range(1, d)], "template": int(rng.integers(0, 3)), "vec_level": d - 1, "vecop": str(rng.choice(VECOPS))})
    # inner functions that do not depend on their own variable (but on enclosing traced ones)
    for d in (2, 3):
        for ops in itertools.product(OPNAMES, repeat=d):
            for t in range(3):
                specs.append({"depth": d, "ops": list(ops), "masks": [0] + [(1 << k) - 1 for k in range(1, d)], "template": t, "indep": True})
    # every level evaluated in its own worker thread started inside the enclosing traced function
    for ops in itertools.product(OPNAMES, repeat=2):
        for m1 in range(2):
            for t in range(3):
                specs.append({"depth": 2, "ops": list(ops), "masks": [0, m1], "template": t, "threaded": True})
    for _ in range(300 if tier == "quick" else 3000):
        specs.append({"depth": 3, "ops": [str(o) for o in rng.choice(OPNAMES, size=3)], "masks": [0, int(rng.integers(0, 2)), int(rng.integers(0, 4))], "template": int(rng.integers(0, 3)), "threaded": True})
    # every (reverse) level differentiates checkpoint(f)
    REV = ["grad", "egrad", "jacobian", "vjp1"]
    for ops in itertools.product(REV, repeat=2):
        for m1 in range(2):
            for t in range(3):
                specs.append({"depth": 2, "ops": list(ops), "masks": [0, m1], "template": t, "ckpt": True})
    for _ in range(150 if tier == "quick" else 2000):
        specs.append({"depth": 3, "ops": [str(o) for o in rng.choice(REV, size=3)], "masks": [0, int(rng.integers(0, 2)), int(rng.integers(0, 4))], "template": int(rng.integers(0, 3)), "ckpt": True})
    # array-valued variables at every level (inner bodies close over enclosing ARRAYS)
    for ops in itertools.product(OPNAMES, repeat=2):
        for m1 in range(2):
            for t in range(3):
                specs.append({"depth": 2, "ops": list(ops), "masks": [0, m1], "template": t, "allvec": True})
    for _ in range(300 if tier == "quick" else 3000):
        specs.append({"depth": 3, "ops": [str(o) for o in rng.choice(OPNAMES, size=3)], "masks": [0, int(rng.integers(0, 2)), int(rng.integers(0, 4))], "template": int(rng.integers(0, 3)), "allvec": True})
    # other dialects of the same nestings: values passed through copy / deepcopy, elementary functions as user
    # primitives (extension API, all operators; deprecated registration methods, reverse operators only)
    for dialect in ("copy", "deepcopy", "user_new", "user_old"):
        pool = REV if dialect == "user_old" else OPNAMES
        for ops in itertools.product(pool, repeat=2):
            for m1 in range(2):
                specs.append({"depth": 2, "ops": list(ops), "masks": [0, m1], "template": (len(specs)) % 3, "dialect": dialect})
        for _ in range(120 if tier == "quick" else 2000):
            specs.append({"depth": 3, "ops": [str(o) for o in rng.choice(pool, size=3)], "masks": [0, int(rng.integers(0, 2)), int(rng.integers(0, 4))], "template": int(rng.integers(0, 3)), "dialect": dialect})
    # inner evaluation points that are plain constants (inner variable not a tracer of the enclosing level)
    extra = []
    for sp in specs:
        if sp["depth"] == 2 and not sp.get("vec_level") and not sp.get("indep"):
            extra.append(dict(sp, const_at=True))
        elif sp["depth"] == 3 and not sp.get("vec_level") and not sp.get("indep") and rng.uniform() < (0.15 if tier == "quick" else 0.5):
            extra.append(dict(sp, const_at=True))
    specs = specs + extra
    reps = 1 if tier == "quick" else 3
    out = []
    for r in range(reps):
        for i, s in enumerate(specs):
            s2 = dict(s)
            s2["eseed"] = [seed, r, i]
            out.append(s2)
    return out


def run_spec(res, spec, ops, anp):
    nprob = len(getattr(PROBES, "box_problems", ()))
    try:
        return _run_spec(res, spec, ops, anp)
    finally:
        probs = getattr(PROBES, "box_problems", [])
        if spec.get("ckpt"):
            # checkpoint re-traces its function when the node is created: ids of those re-traces are later than
            # the ids of traces that are semantically inside them, so the creation-order form of the nesting
            # invariant does not apply (values are still compared with the symbolic reference)
            keep = [p_ for p_ in probs[nprob:] if p_[0] != "box_nesting_order"]
            del probs[nprob:]
            probs.extend(keep)
        if len(probs) > nprob:
            kind, detail = probs[nprob]
            s = {"engine": "nesting", "depth": spec["depth"], "ops": spec["ops"], "masks": spec["masks"], "template": spec["template"], "allvec": bool(spec.get("allvec")), "symptom": "sanitizer:" + kind}
            res["violations"].append({"sig": s, "case": {"spec": spec}, "detail": "%s (%d reports in this nesting)" % (detail, len(probs) - nprob)})
            del probs[nprob:]
        res["counters"]["boxes_checked"] = getattr(PROBES, "boxes_checked", 0)


def _run_spec(res, spec, ops, anp):
    if spec.get("allvec"):
        return run_allvec(res, spec, anp)
    rng = onp.random.Generator(onp.random.PCG64(spec["eseed"]))
    body = build(rng, 0, spec["depth"], spec["ops"], spec["masks"], spec["template"], spec.get("vec_level"), spec.get("vecop"), spec.get("indep", False), 1 if spec.get("const_at") else 0)
    point = round(float(rng.uniform(0.3, 1.2)) * float(rng.choice([-1, 1])), 4)
    top = ("D", spec["ops"][0], "x0", body, S.C(point))
    sig = {"engine": "nesting", "depth": spec["depth"], "ops": spec["ops"], "masks": spec["masks"], "template": spec["template"], "vec": [spec.get("vec_level"), spec.get("vecop")], "indep": bool(spec.get("indep"))}
    if spec.get("const_at"):
        sig["const_at"] = True
    if spec.get("ckpt"):
        sig["ckpt"] = True
        ops = checkpointed_ops(ops)
    if spec.get("dialect"):
        sig["dialect"] = spec["dialect"]
        ops = dialect_ops(ops, spec["dialect"])
        res["counters"]["dialect_nestings"] = res["counters"].get("dialect_nestings", 0) + 1
    if spec.get("threaded"):
        sig["threaded"] = True
        ops = threaded_ops(ops)
        res["counters"]["threaded_nestings"] = res["counters"].get("threaded_nestings", 0) + 1
    case = {"spec": spec}
    res["evaluations"] += 1
    S.reset_memo()
    try:
        ref = float(S.evaluate(S.resolve(top), {}))
    except Exception as e:
        res["not_judged"]["oracle_error:" + type(e).__name__] = res["not_judged"].get("oracle_error:" + type(e).__name__, 0) + 1
        return
    if not onp.isfinite(ref) or S.max_intermediate() > 1e4:
        # ill-scaled expression: float64 evaluation order effects (cancellation, overflow) exceed the 1e-9
        # comparison tolerance; decided on the symbolic side only
        res["not_judged"]["ill_scaled"] = res["not_judged"].get("ill_scaled", 0) + 1
        return
    ntr0 = len(PROBES.traces)
    try:
        with warnings.catch_warnings():
            warnings.simplefilter("ignore")
            got = S.eval_autograd(top, {}, anp, ops)
    except Exception as e:
        s = dict(sig)
        s["symptom"] = "exception:" + type(e).__name__
        res["violations"].append({"sig": s, "case": case, "detail": traceback.format_exc()[-500:] + "\nexpr: " + S.show(top)[:600]})
        return
    if common.find_boxes(got):
        s = dict(sig)
        s["symptom"] = "tracer_leak"
        res["violations"].append({"sig": s, "case": case, "detail": S.show(top)[:600]})
        return
    try:
        gotf = float(onp.asarray(got).reshape(()))
    except Exception:
        s = dict(sig)
        s["symptom"] = "wrong_shape"
        res["violations"].append({"sig": s, "case": case, "detail": "result %r; expr %s" % (got, S.show(top)[:500])})
        return
    if not abs(gotf - ref) <= 1e-9 * (1.0 + abs(ref)):
        s = dict(sig)
        s["symptom"] = "wrong_value"
        res["violations"].append({"sig": s, "case": case, "detail": "autograd %r reference %r; expr %s" % (gotf, ref, S.show(top)[:700])})
        k = sig_key(s)
        res["judged"][k] = res["judged"].get(k, 0) + 1
        return
    # diagnostic: per-thread nesting order of trace ids seen while evaluating
    tr = PROBES.traces[ntr0:]
    res["counters"]["trace_entries"] = res["counters"].get("trace_entries", 0) + sum(1 for t in tr if t[1] == "enter")
    depth_seen = 0
    cur = 0
    for t in tr:
        if t[1] == "enter":
            cur += 1
            depth_seen = max(depth_seen, cur)
        else:
            cur -= 1
    res["counters"]["max_trace_depth"] = max(res["counters"].get("max_trace_depth", 0), depth_seen)
    del PROBES.traces[ntr0:]
    if ref == 0.0 and not spec.get("indep"):
        res["not_judged"]["trivial_zero"] = res["not_judged"].get("trivial_zero", 0) + 1
        return
    k = sig_key(sig)
    res["judged"][k] = res["judged"].get(k, 0) + 1
    if res["evaluations"] % 700 == 1:
        res["samples"].append({"spec": {k: v for k, v in spec.items() if k != "eseed"}, "expr": S.show(top)[:500], "value": gotf, "reference": ref})


def run_high_order_towers(res, anp):
    """Towers of depth 3-6 through ONE elementary function (every level differentiating the level below, random
    forward / reverse assignment per level) at points where the rule is delicate: np.sinc at 0, next to 0 (inside
    the rule's series region), inside the region's edge and at a generic point. Reference: termwise derivatives of the
    everywhere-convergent power series of the function (no autograd rule involved)."""
    import math

    from autograd import deriv, grad

    def series_deriv(name, x, n, terms=60):
        # d^n/dx^n of sum_k c_k x^k
        tot = 0.0
        for k in range(n, terms):
            if name == "sinc":
                c = (-1.0) ** (k // 2) * math.pi**k / math.factorial(k + 1) if k % 2 == 0 else 0.0
            elif name == "sin":
                c = (-1.0) ** ((k - 1) // 2) / math.factorial(k) if k % 2 == 1 else 0.0
            else:  # exp(2x)
                c = 2.0**k / math.factorial(k)
            if c:
                tot += c * math.factorial(k) / math.factorial(k - n) * x ** (k - n)
        return tot

    fns = {"sinc": anp.sinc, "sin": anp.sin, "exp2x": lambda t: anp.exp(2.0 * t)}
    rng = onp.random.Generator(onp.random.PCG64([2024, 8]))
    for name, f in fns.items():
        # (points just OUTSIDE the series region of sinc's rule, e.g. 3.1e-3, are not judged: there the quotient
        # formula is evaluated and its 5th / 6th derivatives lose digits to cancellation - conditioning, not a rule)
        for x in ((0.0, 1e-3, 2.9e-3, 0.37) if name == "sinc" else (0.0, 0.37)):
            for n in (3, 4, 5, 6):
                for rep in range(2):
                    modes = [str(m) for m in rng.choice(["grad", "deriv"], size=n)] if rep else ["grad"] * n
                    res["evaluations"] += 1
                    sig = {"engine": "nesting", "family": "high_order_tower", "fn": name, "order": n, "modes": "".join(m[0] for m in modes), "point": repr(x)}
                    case = {"spec": {"tower": name, "order": n, "modes": modes, "x": x}}
                    g = f
                    for m in modes:
                        g = (grad if m == "grad" else deriv)(g)
                    try:
                        with warnings.catch_warnings():
                            warnings.simplefilter("ignore")
                            got = float(g(x))
                    except Exception as e:
                        res["violations"].append({"sig": dict(sig, symptom="exception:" + type(e).__name__), "case": case, "detail": traceback.format_exc()[-300:]})
                        continue
                    ref = series_deriv(name, x, n)
                    scale = series_deriv(name, 0.0, n + (n % 2 if name != "exp2x" else 0)) if name != "exp2x" else ref
                    if not abs(got - ref) <= 1e-4 * max(abs(ref), abs(scale) * 1e-2, 1e-9):
                        s_ = dict(sig, symptom="wrong_value")
                        res["violations"].append({"sig": s_, "case": case, "detail": "d^%d %s at %r through %s: autograd %r, series %r" % (n, name, x, "/".join(modes), got, ref)})
                        res["judged"][sig_key(s_)] = 1
                    else:
                        res["judged"][sig_key(sig)] = 1


def _new_result():
    return {"evaluations": 0, "judged": {}, "violations": [], "not_judged": {}, "counters": {}, "sets": {}, "samples": [], "info": {}}


def run_shard(pid, tier, seed, idx, n):
    common.setup_repo()
    PROBES.install(node=False, passes=False, acc=False, trace=True)
    PROBES.install_box_sanitizer()
    import autograd.numpy as anp

    ops = ag_ops()
    res = _new_result()
    res["info"]["probes"] = dict(PROBES.attached)
    specs = enumerate_specs(tier, seed)
    res["info"]["total_specs"] = len(specs)
    for i in range(idx, len(specs), n):
        try:
            run_spec(res, specs[i], ops, anp)
        except Exception:
            res["not_judged"]["harness_error"] = res["not_judged"].get("harness_error", 0) + 1
            res["sets"].setdefault("harness_errors", set()).add(traceback.format_exc()[-400:])
    if idx == 5 % n:
        try:
            run_high_order_towers(res, anp)
        except Exception:
            res["not_judged"]["harness_error"] = res["not_judged"].get("harness_error", 0) + 1
            res["sets"].setdefault("harness_errors", set()).add(traceback.format_exc()[-400:])
    res["sets"] = {k: sorted(v) for k, v in res["sets"].items()}
    # max is not additive across shards; keep it as a set entry as well
    res["sets"]["max_trace_depth"] = [str(res["counters"].pop("max_trace_depth", 0))]
    return res


def replay(pid, case):
    common.setup_repo()
    PROBES.install(node=False, passes=False, acc=False, trace=True)
    PROBES.install_box_sanitizer()
    import autograd.numpy as anp

    res = _new_result()
    if "tower" in case["spec"]:
        run_high_order_towers(res, anp)
        res["violations"] = [v for v in res["violations"] if v["case"] == case]
        return res
    run_spec(res, case["spec"], ag_ops(), anp)
    res["counters"].pop("max_trace_depth", None)
    return res


def post(pid, tier, agg):
    out = []
    if agg["not_judged"].get("harness_error", 0) > 0:
        out.append("harness errors: %d" % agg["not_judged"]["harness_error"])
    if sum(agg["judged"].values()) < 3000:
        out.append("fewer than 3000 nestings judged")
    return out
