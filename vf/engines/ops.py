"""Engine `ops` (C16): every differential operator against one ground-truth Jacobian (FD oracle)."""
import time
import traceback
import warnings

import numpy as onp

from .. import common
from ..common import bits_equal, dec, enc, fd_directional, find_boxes, sig_key

LEVEL = "exploration"
RULE = "One object passed at several positions must give bitwise the results of distinct copies for every argnum form (grad, value_and_grad, jacobian, elementwise_grad, make_vjp, make_jvp). Random smooth maps R^in -> R^out (in/out ranks 0-3 incl. 0-d and size-1 dims, 2-4 positional arguments plus keyword arguments) with the differentiated argument selected by int (incl. negative positions, on variadic functions too) / tuple / list / name (also on functools.partial objects, functions with defaults, bound / class / static methods, callable objects and functools.wraps-decorated wrappers; one-argument functions selected through a one-element tuple / list), positional-only / keyword-only neighbours of the named parameter; hessian also of the array-valued map; one evaluation of the user function per operator call (consumable extra arguments); primal values of operators taken w.r.t. an ignored argument stay differentiable by an enclosing operator. Reference Jacobian from the Richardson FD oracle on the same map evaluated with raw NumPy, reference Hessian from the FD oracle applied to autograd's (C01-judged) gradient plus a symmetric check. Checked operators: jacobian, grad, elementwise_grad, hessian, hessian_tensor_product, tensor_jacobian_product, make_hvp, make_ggnvp, make_jvp_reversemode, deriv, make_jvp, make_vjp, value_and_grad, grad_and_aux, grad_named, holomorphic_grad. Non-trivial iff the FD reference is self-consistent; distinct = distinct (in shape class, out shape class, argnum form, #extra args) signatures."
ASSUMPTIONS = ["reference J: 6th-order Richardson FD, error <= 1e-8; tolerance 1e-6 relative", "ranks <= 3, sizes <= 24 per side"]


def nshards(pid, tier):
    return 16


def _new_result():
    return {"evaluations": 0, "judged": {}, "violations": [], "not_judged": {}, "counters": {}, "sets": {}, "samples": [], "info": {}}


def make_map(rng, in_shape, out_shape):
    """f(a, x, b, scale=..) -> array of out_shape; smooth; params returned for replay."""
    A = rng.standard_normal(tuple(out_shape) + tuple(in_shape)) * 0.6
    B = rng.standard_normal(tuple(out_shape)) * 0.5
    Cc = rng.standard_normal(tuple(in_shape)) * 0.5
    return {"A": A, "B": B, "C": Cc, "in": list(in_shape), "out": list(out_shape)}


def eval_map(xp, P, a, x, b, scale=1.0, shift=0.0):
    nin = len(P["in"])
    lin = xp.tensordot(P["A"], x, axes=nin) if nin > 0 else P["A"] * x
    y = xp.tanh(lin + P["B"] * a) * scale + xp.sin(lin * 0.7 + b) * 0.5 + shift
    y = y + xp.sum(P["C"] * x * x) * 0.1
    return y


SHAPES = [(), (1,), (3,), (2, 3), (1, 2), (2, 1, 2), (2, 2, 2), (4,), (2, 2), (3, 3)]


def run_case(res, case):
    import autograd.numpy as anp
    from autograd.differential_operators import deriv, elementwise_grad, grad, grad_and_aux, grad_named, hessian, hessian_tensor_product, jacobian, make_ggnvp, make_hvp, make_jvp, make_jvp_reversemode, make_vjp, tensor_jacobian_product, value_and_grad

    P = {k: dec(v) if k in ("A", "B", "C") else v for k, v in case["P"].items()}
    x0 = dec(case["x"])
    a0, b0 = case["a"], case["b"]
    scale = case["scale"]
    in_shape, out_shape = tuple(P["in"]), tuple(P["out"])
    nform = case["argform"]
    sig = {"engine": "ops", "in": [len(in_shape), int(1 in in_shape)], "out": [len(out_shape), int(1 in out_shape)], "argform": nform, "scalar_in_kind": case.get("xkind", "array")}
    rng = onp.random.Generator(onp.random.PCG64(case["vseed"]))
    res["evaluations"] += 1

    def viol(symptom, detail, op=None):
        s = dict(sig)
        s["symptom"] = symptom
        s["op"] = op
        res["violations"].append({"sig": s, "case": case, "detail": detail})
        k = sig_key(s)
        res["judged"][k] = res["judged"].get(k, 0) + 1

    f_np = lambda x: eval_map(onp, P, a0, x, b0, scale=scale)
    f_np_s = lambda ss: eval_map(onp, P, a0, x0, b0, scale=ss)
    f_ag = lambda a, x, b, scale=1.0, shift=0.0: eval_map(anp, P, a, x, b, scale=scale, shift=shift)
    fx = lambda x: f_ag(a0, x, b0, scale=scale)
    y0 = f_np(x0)
    xf = common.realify(x0)
    n, m = xf.size, onp.asarray(y0).size
    F = lambda v: common.realify(f_np(common.unrealify(v, x0)))
    J = onp.zeros((m, n))
    for j in range(n):
        e = onp.zeros(n)
        e[j] = 1.0
        fd = fd_directional(F, xf, e)
        if not fd.ok:
            res["not_judged"]["irregular_point"] = res["not_judged"].get("irregular_point", 0) + 1
            return
        J[:, j] = fd.val
    Jt = J.reshape(out_shape + in_shape)
    tolJ = 1e-6 * (1.0 + float(onp.max(onp.abs(J))))

    def close(a, b, tol=None):
        a, b = onp.asarray(a), onp.asarray(b)
        return a.shape == b.shape and bool(onp.all(onp.abs(a - b) <= (tol or tolJ)))

    ops_checked = []
    with warnings.catch_warnings():
        warnings.simplefilter("ignore")
        try:
            # --- argnum selection forms + extra args: all must equal differentiating fx
            if nform == "int":
                jac = jacobian(f_ag, 1)(a0, x0, b0, scale=scale)
            elif nform == "int_kwshift":
                jac = jacobian(f_ag, 1)(a0, x0, b0, scale=scale, shift=0.3)
            elif nform == "unary":
                jac = jacobian(fx)(x0)
            else:
                jac = jacobian(f_ag, 1)(a0, x0, b0, scale=scale)
            if find_boxes(jac):
                return viol("tracer_leak", "jacobian", "jacobian")
            if onp.shape(jac) != out_shape + in_shape:
                return viol("wrong_shape", "jacobian shape %s expected %s" % (onp.shape(jac), out_shape + in_shape), "jacobian")
            if not close(jac, Jt):
                return viol("wrong_value", "jacobian deviates by %r" % float(onp.max(onp.abs(jac - Jt))), "jacobian")
            ops_checked.append("jacobian")
            # make_vjp / make_jvp / deriv / make_jvp_reversemode / tensor_jacobian_product
            g = rng.standard_normal(out_shape)
            v = rng.standard_normal(in_shape)
            if case.get("xkind") == "pyfloat":
                v = float(v)
            vjp, val = make_vjp(f_ag, 1)(a0, x0, b0, scale=scale)
            if not common.values_equal_nan(onp.asarray(val), onp.asarray(y0)):
                return viol("primal_mismatch", "make_vjp primal %r vs %r" % (val, y0), "make_vjp")
            r = vjp(g if out_shape else float(g))
            exp = onp.tensordot(g, Jt, axes=len(out_shape))
            if not close(r, exp):
                return viol("wrong_value", "make_vjp(g) deviates", "make_vjp")
            ops_checked.append("make_vjp")
            val2, t = make_jvp(f_ag, 1)(a0, x0, b0, scale=scale)(v)
            expt = onp.tensordot(Jt, onp.asarray(v), axes=len(in_shape))
            if not common.values_equal_nan(onp.asarray(val2), onp.asarray(y0)):
                return viol("primal_mismatch", "make_jvp primal", "make_jvp")
            if not close(t, expt):
                return viol("wrong_value", "make_jvp(v) deviates: %s vs %s" % (common.brief(onp.asarray(t)), common.brief(expt)), "make_jvp")
            ops_checked.append("make_jvp")
            d = deriv(f_ag, 1)(a0, x0, b0, scale=scale)
            if not close(d, onp.tensordot(Jt, onp.ones(in_shape), axes=len(in_shape))):
                return viol("wrong_value", "deriv != J.ones", "deriv")
            ops_checked.append("deriv")
            jr = make_jvp_reversemode(f_ag, 1)(a0, x0, b0, scale=scale)(v)
            if not close(jr, expt):
                return viol("wrong_value", "make_jvp_reversemode deviates", "make_jvp_reversemode")
            ops_checked.append("make_jvp_reversemode")
            tj = tensor_jacobian_product(f_ag, 1)(a0, x0, b0, g, scale=scale)
            if not close(tj, exp):
                return viol("wrong_value" if onp.shape(tj) == onp.shape(exp) else "wrong_shape", "tensor_jacobian_product: %s vs %s" % (common.brief(onp.asarray(tj)), common.brief(exp)), "tensor_jacobian_product")
            ops_checked.append("tensor_jacobian_product")
            # the second public name of the same operator must behave identically (it may be a separate function)
            import autograd.differential_operators as DO

            if hasattr(DO, "vector_jacobian_product"):
                tj2 = DO.vector_jacobian_product(f_ag, 1)(a0, x0, b0, g, scale=scale)
                if not close(tj2, exp):
                    return viol("wrong_value" if onp.shape(tj2) == onp.shape(exp) else "wrong_shape", "vector_jacobian_product: %s vs %s" % (common.brief(onp.asarray(tj2)), common.brief(exp)), "vector_jacobian_product")
                ops_checked.append("vector_jacobian_product")
            eg = elementwise_grad(f_ag, 1)(a0, x0, b0, scale=scale)
            if not close(eg, Jt.reshape((m,) + in_shape).sum(axis=0)):
                return viol("wrong_value", "elementwise_grad != sum_out J", "elementwise_grad")
            ops_checked.append("elementwise_grad")
            # --- scalar-valued loss built on the map
            w = rng.standard_normal(out_shape)
            L_np = lambda x: float(onp.sum(w * f_np(x)))
            L_ag = lambda a, x, b, scale=1.0: anp.sum(w * f_ag(a, x, b, scale=scale))
            Lx = lambda x: L_ag(a0, x, b0, scale=scale)
            gexp = onp.tensordot(w, Jt, axes=len(out_shape))
            gr = grad(L_ag, 1)(a0, x0, b0, scale=scale)
            if onp.shape(gr) != in_shape:
                return viol("wrong_shape", "grad shape %s" % (onp.shape(gr),), "grad")
            if not close(gr, gexp):
                return viol("wrong_value", "grad deviates", "grad")
            ops_checked.append("grad")
            for form, argn in (("tuple", (1,)), ("list", [1]), ("tuple2", (1, 0)), ("list2", [2, 1])):
                r = grad(L_ag, argn)(a0, x0, b0, scale=scale)
                if not isinstance(r, tuple) or len(r) != len(argn):
                    return viol("wrong_structure", "grad with argnum=%r returned %r" % (argn, type(r)), "grad:" + form)
                k = list(argn).index(1)
                if not close(r[k], gexp):
                    return viol("wrong_value", "grad argnum=%r entry %d deviates" % (argn, k), "grad:" + form)
                if len(argn) == 2:
                    other = argn[1 - k]
                    h = 1e-5
                    args_p = [a0, x0, b0]
                    args_m = [a0, x0, b0]
                    args_p[other] += h
                    args_m[other] -= h
                    fdo = (float(onp.sum(w * eval_map(onp, P, args_p[0], x0, args_p[2], scale=scale))) - float(onp.sum(w * eval_map(onp, P, args_m[0], x0, args_m[2], scale=scale)))) / (2 * h)
                    if abs(float(r[1 - k]) - fdo) > 1e-5 * (1 + abs(fdo)):
                        return viol("wrong_value", "grad argnum=%r entry for arg %d: %r vs %r" % (argn, other, r[1 - k], fdo), "grad:" + form)
            ops_checked.append("grad:tuple/list")
            # a function of ONE positional argument selected through a one-element tuple / list (no keywords):
            # the container form of the result and of the (co)tangents must not depend on the arity
            for form, argn in (("tuple", (0,)), ("list", [0])):
                r = grad(Lx, argn)(x0)
                vr = value_and_grad(Lx, argn)(x0)
                if not (isinstance(r, tuple) and len(r) == 1 and isinstance(vr[1], tuple) and len(vr[1]) == 1):
                    return viol("wrong_structure", "grad / value_and_grad of a one-argument function with argnum=%r returned %r / %r" % (argn, type(r), type(vr[1])), "grad:single_arg_" + form)
                if not close(r[0], gexp) or not close(vr[1][0], gexp):
                    return viol("wrong_value", "grad of a one-argument function with argnum=%r deviates" % (argn,), "grad:single_arg_" + form)
                vt1 = rng.standard_normal(in_shape)
                jv = make_jvp(fx, argn)(x0)((vt1,))[1]
                if onp.shape(jv) != out_shape or not close(jv, onp.tensordot(Jt, vt1, axes=len(in_shape)), tolJ * (1.0 + float(onp.sum(onp.abs(vt1))))):
                    return viol("wrong_value" if onp.shape(jv) == out_shape else "wrong_shape", "make_jvp of a one-argument function with argnum=%r: tangent shape %s" % (argn, onp.shape(jv)), "make_jvp:single_arg_" + form)
            ops_checked.append("grad:single_arg_tuple/list")

            def named(a, x, b):
                return L_ag(a, x, b, scale=scale)

            gn = grad_named(named, "x")(a0, x0, b0)
            if not close(gn, gexp):
                return viol("wrong_value", "grad_named deviates", "grad_named")
            # by name on partially applied functions (positionally / by keyword bound arguments) and on
            # functions with defaults: only WHICH argument is differentiated may change
            import functools

            def named_kw(a, x, b, scale=1.0, shift=0.0):
                return anp.sum(w * f_ag(a, x, b, scale=scale, shift=shift))

            class _Model:
                """the same function as a bound method, a class method and a callable object: the caller
                never passes the implicit first parameter, so it is not among the positions"""

                def loss(self, a, x, b):
                    return L_ag(a, x, b, scale=scale)

                @classmethod
                def closs(cls, a, x, b):
                    return L_ag(a, x, b, scale=scale)

                @staticmethod
                def sloss(a, x, b):
                    return L_ag(a, x, b, scale=scale)

                def __call__(self, a, x, b):
                    return L_ag(a, x, b, scale=scale)

            def _with_lead(f):
                @functools.wraps(f)
                def wrapper(lead, a, x, b):
                    return lead * f(a, x, b)

                return wrapper

            def _posonly(lead, a, /, x, b):
                return lead * L_ag(a, x, b, scale=scale)

            def _kwonly_tail(a, x, b, *, shift=0.0):
                return L_ag(a, x, b, scale=scale) + shift

            _m = _Model()
            for label, fun_, args_, kw_ in (
                ("positional_only_before_named", _posonly, (1.0, a0, x0, b0), {}),
                ("keyword_only_after_named", _kwonly_tail, (a0, x0, b0), {"shift": 0.5}),
                ("bound_method", _m.loss, (a0, x0, b0), {}),
                ("class_method", _Model.closs, (a0, x0, b0), {}),
                ("static_method", _m.sloss, (a0, x0, b0), {}),
                ("callable_object", _m, (a0, x0, b0), {}),
                ("wraps_decorated_extra_leading", _with_lead(named), (1.0, a0, x0, b0), {}),
                ("partial_positional", functools.partial(named, a0), (x0, b0), {}),
                ("partial_keyword", functools.partial(named, b=b0), (a0, x0), {}),
                ("partial_keyword_scale", functools.partial(named_kw, scale=scale), (a0, x0, b0), {}),
                ("defaults_and_kwargs", named_kw, (a0, x0, b0), {"scale": scale}),
            ):
                gnp = grad_named(fun_, "x")(*args_, **kw_)
                if onp.shape(gnp) != in_shape or not close(gnp, gexp):
                    return viol("wrong_value", "grad_named(%s, 'x') deviates from the gradient w.r.t. x: %s" % (label, common.brief(onp.asarray(gnp))), "grad_named:" + label)
            ops_checked.append("grad_named")
            # --- negative positions count from the end (x is argument -2 of (a, x, b); last of (a, b, x))
            last = lambda a, b, x, scale=1.0: L_ag(a, x, b, scale=scale)
            last_f = lambda a, b, x, scale=1.0: f_ag(a, x, b, scale=scale)
            var = lambda *args, **kw: L_ag(args[0], args[-1], args[1], **kw)  # variadic: the last positional is x
            for label, val_ in (
                ("grad:-2", lambda: grad(L_ag, -2)(a0, x0, b0, scale=scale)),
                ("grad:-1", lambda: grad(last, -1)(a0, b0, x0, scale=scale)),
                ("grad:-1:variadic", lambda: grad(var, -1)(a0, b0, x0, scale=scale)),
                ("value_and_grad:-1", lambda: value_and_grad(last, -1)(a0, b0, x0, scale=scale)[1]),
                ("value_and_grad:-1:variadic", lambda: value_and_grad(var, -1)(a0, b0, x0, scale=scale)[1]),
                ("make_vjp:-1", lambda: make_vjp(last, -1)(a0, b0, x0, scale=scale)[0](1.0)),
                ("grad:(-1,0)", lambda: grad(last, (-1, 0))(a0, b0, x0, scale=scale)[0]),
                ("grad:[-1]", lambda: grad(var, [-1])(a0, b0, x0, scale=scale)[0]),
            ):
                r = val_()
                if onp.shape(r) != in_shape or not close(r, gexp):
                    return viol("wrong_value", "%s deviates from the gradient w.r.t. x: %s" % (label, common.brief(onp.asarray(r))), label)
            vvar = value_and_grad(var, -1)(a0, b0, x0, scale=scale)[0]
            if not bits_equal(onp.asarray(vvar), onp.asarray(plain_L := L_ag(a0, x0, b0, scale=scale))):
                return viol("primal_mismatch", "value_and_grad(variadic, -1) value %r vs plain %r" % (vvar, plain_L), "value_and_grad:-1:variadic")
            jneg = jacobian(last_f, -1)(a0, b0, x0, scale=scale)
            if onp.shape(jneg) != out_shape + in_shape or not close(jneg, Jt):
                return viol("wrong_value", "jacobian(argnum=-1) deviates", "jacobian:-1")
            tneg = make_jvp(last_f, -1)(a0, b0, x0, scale=scale)(v)[1]
            if not close(tneg, expt):
                return viol("wrong_value", "make_jvp(argnum=-1) deviates", "make_jvp:-1")
            ops_checked.append("negative_argnum")
            vv, vg = value_and_grad(L_ag, 1)(a0, x0, b0, scale=scale)
            plain = L_ag(a0, x0, b0, scale=scale)
            if not bits_equal(onp.asarray(vv), onp.asarray(plain)) or find_boxes(vv):
                return viol("primal_mismatch", "value_and_grad value %r vs plain %r" % (vv, plain), "value_and_grad")
            if not close(vg, gexp):
                return viol("wrong_value", "value_and_grad grad deviates", "value_and_grad")
            ops_checked.append("value_and_grad")
            # size-1 outputs that are not 0-d are accepted as "scalar": the value comes back untouched (shape, dtype, bits)
            for oshp in ((1,), (1, 1)):
                L1 = lambda a, x, b, scale=1.0: anp.reshape(L_ag(a, x, b, scale=scale), oshp)
                plain1 = L1(a0, x0, b0, scale=scale)
                vv1, vg1 = value_and_grad(L1, 1)(a0, x0, b0, scale=scale)
                if find_boxes(vv1) or onp.shape(vv1) != oshp or not bits_equal(onp.asarray(vv1), onp.asarray(plain1)):
                    return viol("primal_mismatch", "value_and_grad of a size-1 output of shape %s returned the value %r (plain call: %r)" % (oshp, vv1, plain1), "value_and_grad:size1")
                if not close(vg1, gexp):
                    return viol("wrong_value", "value_and_grad (size-1 output %s) gradient deviates" % (oshp,), "value_and_grad:size1")
                g1_ = grad(L1, 1)(a0, x0, b0, scale=scale)
                if not close(g1_, gexp):
                    return viol("wrong_value", "grad of a size-1 output of shape %s deviates" % (oshp,), "grad:size1")
            if hasattr(DO, "hessian_vector_product"):
                pass
            ops_checked.append("value_and_grad:size1")
            aux_obj = {"k": onp.array([1.0, 2.0]), "y": onp.asarray(y0)}
            ga, aux = grad_and_aux(lambda a, x, b: (L_ag(a, x, b, scale=scale), f_ag(a, x, b, scale=scale) * 1.0), 1)(a0, x0, b0)
            if find_boxes(aux) or not common.values_equal_nan(onp.asarray(aux), onp.asarray(y0)):
                return viol("primal_mismatch", "grad_and_aux aux %r vs %r" % (aux, y0), "grad_and_aux")
            if not close(ga, gexp):
                return viol("wrong_value", "grad_and_aux grad deviates", "grad_and_aux")
            ops_checked.append("grad_and_aux")
            # one call of an operator = ONE evaluation of the user's function: extra arguments that are consumed
            # by being used (an iterator of mini-batches), counters and random streams inside the function
            calls = []

            def stateful(a, x, batches, b):
                m = next(batches)
                calls.append(m)
                return L_ag(a, x, b, scale=scale) * m, {"batch": m, "calls": float(len(calls))}

            for opn, run in (("grad_and_aux", lambda it: grad_and_aux(stateful, 1)(a0, x0, it, b0)),
                             ("value_and_grad", lambda it: (lambda vg: (vg[1], {"batch": calls[-1], "calls": len(calls)}))(value_and_grad(lambda a, x, bt, b: stateful(a, x, bt, b)[0], 1)(a0, x0, it, b0))),
                             ("grad", lambda it: (grad(lambda a, x, bt, b: stateful(a, x, bt, b)[0], 1)(a0, x0, it, b0), {"batch": calls[-1], "calls": len(calls)}))):
                del calls[:]
                it = iter([2.0, 3.0, 5.0])
                g_, aux_ = run(it)
                if len(calls) != 1 or aux_["batch"] != 2.0 or aux_["calls"] != 1 or next(it) != 3.0:
                    return viol("evaluated_more_than_once", "%s evaluated the function %d times (batches consumed %s, aux %r)" % (opn, len(calls), calls, aux_), opn + ":single_evaluation")
                if not close(g_, 2.0 * gexp):
                    return viol("wrong_value", "%s on a function with a consumable extra argument deviates" % opn, opn + ":single_evaluation")
            ops_checked.append("single_evaluation")
            # primal / auxiliary values stay differentiable by an enclosing operator
            j_aux = jacobian(lambda x: grad_and_aux(lambda a, xx, b: (L_ag(a, xx, b, scale=scale), f_ag(a, xx, b, scale=scale) * 1.0), 1)(a0, x, b0)[1])(x0)
            if onp.shape(j_aux) != out_shape + in_shape or not close(j_aux, Jt):
                return viol("wrong_value", "jacobian of the aux output of grad_and_aux (taken inside jacobian) deviates from J: %s" % common.brief(onp.asarray(j_aux)), "grad_and_aux:nested")
            g_val = grad(lambda x: value_and_grad(L_ag, 1)(a0, x, b0, scale=scale)[0])(x0)
            if not close(g_val, gexp):
                return viol("wrong_value", "grad of the value returned by value_and_grad (nested) deviates", "value_and_grad:nested")
            t_aux = make_jvp(lambda x: grad_and_aux(lambda a, xx, b: (L_ag(a, xx, b, scale=scale), f_ag(a, xx, b, scale=scale) * 1.0), 1)(a0, x, b0)[1])(x0)(v)[1]
            if not close(t_aux, expt):
                return viol("wrong_value", "jvp through the aux output of grad_and_aux deviates", "grad_and_aux:nested")
            ops_checked.append("nested_primal_aux")
            # ... also when the operator is taken w.r.t. an argument the function IGNORES (its derivative is an exact
            # zero) while the primal it hands back depends on the enclosing variable through another argument
            ign = lambda dummy, x: L_ag(a0, x, b0, scale=scale)
            g_ign = grad(lambda x: value_and_grad(ign, 0)(1.7, x)[0])(x0)
            j_ign = grad(lambda x: make_vjp(ign, 0)(1.7, x)[1])(x0)
            f_ign = grad(lambda x: make_jvp(ign, 0)(1.7, x)(1.0)[0])(x0)
            for lab_, val_ in (("value_and_grad", g_ign), ("make_vjp", j_ign), ("make_jvp", f_ign)):
                if not close(val_, gexp):
                    return viol("wrong_value", "the primal handed back by %s (taken w.r.t. an argument the function ignores) lost its dependence on the enclosing variable: gradient %s" % (lab_, common.brief(onp.asarray(val_))), lab_ + ":primal_of_ignored_argnum")
            ops_checked.append("primal_of_ignored_argnum")
            # mixed derivative: an operator result taken at a CONSTANT point, differentiated by an enclosing
            # operator w.r.t. another parameter the function closes over (here `a`): d/da J_x f(a, x0, b)
            for pname, p0_, Jx in (("a", a0, lambda aa: jacobian(lambda xx: f_ag(aa, xx, b0, scale=scale))(x0)), ("scale", scale, lambda ss: jacobian(lambda xx: f_ag(a0, xx, b0, scale=ss))(x0))):
                if m * n > 64:
                    break
                a0_ = p0_
                fdm = fd_directional(lambda av: common.realify(onp.asarray(Jx(float(av[0])), dtype=float)), onp.array([a0_]), onp.array([1.0]))
                if fdm.ok:
                    dJ = fdm.val.reshape(out_shape + in_shape)
                    tolm = 1e-6 * (1.0 + float(onp.max(onp.abs(dJ))))
                    for label, thunk in (
                        ("jacobian_of_jacobian:closure", lambda: jacobian(Jx)(a0_)),
                        ("deriv_of_jacobian:closure", lambda: deriv(Jx)(a0_)),
                        ("grad_of_weighted_jacobian:closure", lambda: grad(lambda aa: anp.sum(Jx(aa) * dJ))(a0_) / max(float(onp.sum(dJ * dJ)), 1e-300) * dJ),
                        ("jacobian_of_elementwise_grad:closure", None),
                    ):
                        if thunk is None:
                            continue
                        r = thunk()
                        if onp.shape(r) != onp.shape(dJ) or not close(r, dJ, tolm):
                            # the weighted form reproduces dJ only up to the projection on dJ itself
                            if label.startswith("grad_of_weighted"):
                                pr = float(grad(lambda aa: anp.sum(Jx(aa) * dJ))(a0_))
                                if abs(pr - float(onp.sum(dJ * dJ))) <= 1e-6 * (1.0 + float(onp.sum(dJ * dJ))):
                                    continue
                            return viol("wrong_value", "%s (parameter %s) deviates from the FD derivative of the Jacobian w.r.t. the closed-over parameter: %s vs %s" % (label, pname, common.brief(onp.asarray(r)), common.brief(dJ)), label + ":" + pname)
                    g_in = grad(lambda pp: anp.sum(grad(lambda xx: L_ag(pp if pname == "a" else a0, xx, b0, scale=(pp if pname == "scale" else scale)))(x0) * v))(a0_)
                    exp_in = float(onp.sum(onp.tensordot(w, dJ, axes=len(out_shape)) * onp.asarray(v)))
                    if abs(float(g_in) - exp_in) > 1e-6 * (1.0 + abs(exp_in)) + tolm * float(onp.sum(onp.abs(w))) * float(onp.sum(onp.abs(onp.asarray(v)))):
                        return viol("wrong_value", "grad over a closed-over parameter of an inner grad taken at a constant point: %r vs %r" % (g_in, exp_in), "grad_of_grad:closure")
                    if pname == "scale":
                        # auxiliary / primal outputs that depend on the ENCLOSING variable only stay differentiable
                        # by the enclosing operator
                        aux_outer = lambda ss: grad_and_aux(lambda xx: (L_ag(a0, xx, b0, scale=ss), f_ag(a0, x0, b0, scale=ss) * 1.0))(x0)[1]
                        val_outer = lambda ss: value_and_grad(lambda xx: L_ag(a0, xx, b0, scale=ss))(x0)[0]
                        fda = fd_directional(lambda sv: common.realify(onp.asarray(f_np_s(float(sv[0])), dtype=float)), onp.array([scale]), onp.array([1.0]))
                        if fda.ok:
                            d_aux = fda.val.reshape(out_shape)
                            tola = 1e-6 * (1.0 + float(onp.max(onp.abs(d_aux))) if d_aux.size else 1.0)
                            for label, r in (("grad_and_aux:aux_of_outer_only:deriv", deriv(aux_outer)(scale)), ("grad_and_aux:aux_of_outer_only:jacobian", jacobian(aux_outer)(scale))):
                                if onp.shape(r) != out_shape or not close(r, d_aux, tola):
                                    return viol("wrong_value", "%s deviates: %s vs %s" % (label, common.brief(onp.asarray(r)), common.brief(d_aux)), label)
                            gv = grad(val_outer)(scale)
                            if abs(float(gv) - float(onp.sum(w * d_aux))) > tola * (1.0 + float(onp.sum(onp.abs(w)))):
                                return viol("wrong_value", "grad of the value part of value_and_grad w.r.t. an enclosing variable: %r vs %r" % (gv, float(onp.sum(w * d_aux))), "value_and_grad:value_of_outer_only")
                    ops_checked.append("mixed_closure_parameter")
            # --- second order: reference H = FD Jacobian of autograd's gradient (C01-judged), symmetric
            Gf = lambda vv_: common.realify(grad(Lx)(common.unrealify(vv_, x0)))
            H = onp.zeros((n, n))
            okH = True
            for j in range(n):
                e = onp.zeros(n)
                e[j] = 1.0
                fd = fd_directional(Gf, xf, e)
                if not fd.ok:
                    okH = False
                    break
                H[:, j] = fd.val
            if okH:
                tolH = 1e-6 * (1.0 + float(onp.max(onp.abs(H))))
                if float(onp.max(onp.abs(H - H.T))) > 10 * tolH:
                    return viol("hessian_asymmetric", "FD-of-gradient Hessian asymmetric by %r" % float(onp.max(onp.abs(H - H.T))), "grad")
                Ht = H.reshape(in_shape + in_shape)
                hs = hessian(L_ag, 1)(a0, x0, b0, scale=scale)
                if onp.shape(hs) != in_shape + in_shape:
                    return viol("wrong_shape", "hessian shape %s" % (onp.shape(hs),), "hessian")
                if not close(hs, Ht, tolH):
                    return viol("wrong_value", "hessian deviates by %r" % float(onp.max(onp.abs(hs - Ht))), "hessian")
                ops_checked.append("hessian")
                # hessian of the (array-valued) map itself is the Jacobian of its Jacobian: shape out + in + in
                if m * n <= 48 and m > 0:
                    Jf = lambda vv_: common.realify(jacobian(fx)(common.unrealify(vv_, x0)))
                    H3 = onp.zeros((m * n, n))
                    ok3 = True
                    for j in range(n):
                        e = onp.zeros(n)
                        e[j] = 1.0
                        fd = fd_directional(Jf, xf, e)
                        if not fd.ok:
                            ok3 = False
                            break
                        H3[:, j] = fd.val
                    if ok3:
                        tol3 = 1e-6 * (1.0 + float(onp.max(onp.abs(H3))))
                        h3 = hessian(f_ag, 1)(a0, x0, b0, scale=scale)
                        if onp.shape(h3) != out_shape + in_shape + in_shape:
                            return viol("wrong_shape", "hessian of a map with output shape %s has shape %s, expected out+in+in" % (out_shape, onp.shape(h3)), "hessian:array_valued")
                        if not close(h3, H3.reshape(out_shape + in_shape + in_shape), tol3):
                            return viol("wrong_value", "hessian of the array-valued map deviates from the Jacobian of its Jacobian", "hessian:array_valued")
                        ops_checked.append("hessian:array_valued")
                vt = rng.standard_normal(in_shape)
                hexp = onp.tensordot(Ht, vt, axes=len(in_shape))
                hv = hessian_tensor_product(L_ag, 1)(a0, x0, b0, vt, scale=scale)
                if not close(hv, hexp, tolH):
                    return viol("wrong_value" if onp.shape(hv) == onp.shape(hexp) else "wrong_shape", "hessian_tensor_product deviates", "hessian_tensor_product")
                ops_checked.append("hessian_tensor_product")
                import autograd.differential_operators as DO2

                if hasattr(DO2, "hessian_vector_product"):
                    hv_b = DO2.hessian_vector_product(L_ag, 1)(a0, x0, b0, vt, scale=scale)
                    if not close(hv_b, hexp, tolH):
                        return viol("wrong_value" if onp.shape(hv_b) == onp.shape(hexp) else "wrong_shape", "hessian_vector_product deviates", "hessian_vector_product")
                    ops_checked.append("hessian_vector_product")
                hv2 = make_hvp(L_ag, 1)(a0, x0, b0, scale=scale)[0](vt)
                if not close(hv2, hexp, tolH):
                    return viol("wrong_value", "make_hvp deviates", "make_hvp")
                ops_checked.append("make_hvp")
                # generalized Gauss-Newton: J^T H_g J v with g(y) = sum(cosh(y)) and with 0.5*sum(y^2)
                for gname, gfun, Hg in (("half_sq", lambda y: 0.5 * anp.sum(y**2), onp.ones(m)), ("cosh", lambda y: anp.sum(anp.cosh(y)), onp.cosh(common.realify(y0)))):
                    gg = make_ggnvp(lambda x: fx(x), gfun)(x0)(vt)
                    Jv = J @ common.realify(vt)
                    ggexp = (J.T @ (Hg * Jv)).reshape(in_shape)
                    if not close(gg, ggexp, 1e-6 * (1.0 + float(onp.max(onp.abs(ggexp))))):
                        return viol("wrong_value", "make_ggnvp(%s) deviates: %s vs %s" % (gname, common.brief(onp.asarray(gg)), common.brief(ggexp)), "make_ggnvp")
                gg1 = make_ggnvp(lambda a, x, b: f_ag(a, x, b, scale=scale), lambda y: 0.5 * anp.sum(y**2), 1)(a0, x0, b0)(vt)
                ggexp1 = (J.T @ (J @ common.realify(vt))).reshape(in_shape)
                if not close(gg1, ggexp1, 1e-6 * (1.0 + float(onp.max(onp.abs(ggexp1))))):
                    return viol("wrong_value", "make_ggnvp(f_argnum=1) deviates", "make_ggnvp")
                ops_checked.append("make_ggnvp")
            else:
                res["counters"]["hessian_reference_irregular"] = res["counters"].get("hessian_reference_irregular", 0) + 1
            # --- the SAME object passed at several positions (round 9): an operator selects its argument by
            # POSITION, so op(h, k)(x, x, x) must equal op(h, k) on three distinct copies, bit for bit, for
            # every k (an identity-based substitution differentiates all aliased positions at once)
            def h_al(p_, q_, r_):
                return anp.sum(anp.sin(p_) * 1.5 + q_ * q_ * 0.25 + anp.exp(0.3 * r_) * q_)

            xs_al = x0 if case.get("xkind") != "pyfloat" else float(x0)
            def cp_al(z):  # an equal value held by a DIFFERENT object
                if isinstance(z, onp.ndarray):
                    return onp.array(z, copy=True)
                if isinstance(z, onp.generic):
                    return type(z)(z.item())
                return float.fromhex(float(z).hex())

            for k_al in (0, 1, 2, (0, 2), [1, 0]) if onp.isrealobj(x0) else ():
                for oname, opf in (("grad", grad), ("value_and_grad", value_and_grad), ("jacobian", jacobian), ("elementwise_grad", elementwise_grad)):
                    if isinstance(k_al, (tuple, list)) and oname in ("jacobian", "elementwise_grad"):
                        continue
                    r_same = opf(h_al, k_al)(xs_al, xs_al, xs_al)
                    r_dist = opf(h_al, k_al)(cp_al(xs_al), cp_al(xs_al), cp_al(xs_al))
                    if not common.values_equal_nan(r_same, r_dist):
                        return viol("wrong_value", "%s(h, %r)(x, x, x) with one object at three positions differs from the call on three copies: %s vs %s" % (oname, k_al, common.brief(r_same), common.brief(r_dist)), oname + ":aliased_positions")
                if isinstance(k_al, int):
                    va, _ = make_vjp(h_al, k_al)(xs_al, xs_al, xs_al)
                    vd, _ = make_vjp(h_al, k_al)(cp_al(xs_al), cp_al(xs_al), cp_al(xs_al))
                    ra, rd = va(1.0), vd(1.0)
                    _, ta = make_jvp(h_al, k_al)(xs_al, xs_al, xs_al)(onp.ones(onp.shape(xs_al)) if isinstance(xs_al, onp.ndarray) else 1.0)
                    _, td = make_jvp(h_al, k_al)(cp_al(xs_al), cp_al(xs_al), cp_al(xs_al))(onp.ones(onp.shape(xs_al)) if isinstance(xs_al, onp.ndarray) else 1.0)
                    if not common.values_equal_nan(ra, rd) or not common.values_equal_nan(ta, td):
                        return viol("wrong_value", "make_vjp/make_jvp(h, %r)(x, x, x) with one object at three positions differs from the call on three copies" % (k_al,), "make_vjp:aliased_positions")
            if onp.isrealobj(x0):
                ops_checked.append("aliased_positions")
        except Exception as e:
            return viol("exception:" + type(e).__name__, traceback.format_exc()[-500:], ops_checked[-1] + "+1" if ops_checked else "first")
    k = sig_key(sig)
    res["judged"][k] = res["judged"].get(k, 0) + 1
    for o in ops_checked:
        res["counters"]["op:" + o] = res["counters"].get("op:" + o, 0) + 1
    if res["evaluations"] % 40 == 1:
        res["samples"].append({"in_shape": list(in_shape), "out_shape": list(out_shape), "argform": nform, "operators_checked": ops_checked})


def holomorphic_cases(res, rng):
    """holomorphic_grad and complex-valued consequences of C16's operator list."""
    import autograd.numpy as anp
    from autograd import holomorphic_grad

    fs = {"sq": (lambda z: z * z + 2j * z, lambda z: 2 * z + 2j), "exp": (lambda z: anp.exp(1j * z) * z, lambda z: onp.exp(1j * z) * (1 + 1j * z)), "sin": (lambda z: anp.sin(z) / (2.0 + z), lambda z: onp.cos(z) / (2.0 + z) - onp.sin(z) / (2.0 + z) ** 2)}
    for name, (f, df) in fs.items():
        for z in (0.3 + 0.7j, onp.complex128(-0.4 + 0.2j), onp.array(0.5 - 0.3j)):
            res["evaluations"] += 1
            sig = {"engine": "ops", "family": "holomorphic", "f": name, "z": type(z).__name__}
            try:
                with warnings.catch_warnings():
                    warnings.simplefilter("ignore")
                    g = holomorphic_grad(f)(z)
            except Exception as e:
                s = dict(sig, symptom="exception:" + type(e).__name__)
                res["violations"].append({"sig": s, "case": {"kind": "holo", "f": name}, "detail": traceback.format_exc()[-300:]})
                continue
            if abs(complex(g) - complex(df(z))) > 1e-10:
                s = dict(sig, symptom="wrong_value")
                res["violations"].append({"sig": s, "case": {"kind": "holo", "f": name}, "detail": "%r vs %r" % (g, df(z))})
                continue
            # the other operators on complex arguments: J v = f'(z) v for a holomorphic f, in both modes and through
            # the reverse-over-reverse construction; J^T g follows the documented convention g f'(z)
            from autograd.differential_operators import make_jvp, make_jvp_reversemode, make_vjp

            bad = None
            for v in (0.6 - 0.8j, 1.0 + 0.0j, 0.3j):
                vv = type(z)(v) if not isinstance(z, onp.ndarray) else onp.array(v)
                exp_t = complex(df(z)) * complex(v)
                try:
                    with warnings.catch_warnings():
                        warnings.simplefilter("ignore")
                        t_f = make_jvp(f)(z)(vv)[1]
                        t_r = make_jvp_reversemode(f)(z)(vv)
                        r_v = make_vjp(f)(z)[0](vv)
                except Exception as e:
                    bad = ("exception:" + type(e).__name__, traceback.format_exc()[-300:])
                    break
                if abs(complex(t_f) - exp_t) > 1e-10:
                    bad = ("wrong_value", "make_jvp on a complex argument: %r vs %r" % (t_f, exp_t))
                elif abs(complex(t_r) - exp_t) > 1e-10:
                    bad = ("wrong_value", "make_jvp_reversemode on a complex argument: %r vs %r" % (t_r, exp_t))
                elif abs(complex(r_v) - complex(v) * complex(df(z))) > 1e-10:
                    bad = ("wrong_value", "make_vjp on a complex argument: %r vs %r" % (r_v, complex(v) * complex(df(z))))
                if bad:
                    break
            if bad:
                res["violations"].append({"sig": dict(sig, symptom=bad[0], op="complex_operators"), "case": {"kind": "holo", "f": name}, "detail": bad[1]})
                continue
            k = sig_key(sig)
            res["judged"][k] = res["judged"].get(k, 0) + 1


def make_case(rng, i):
    ins = SHAPES[int(rng.integers(0, len(SHAPES)))]
    outs = SHAPES[int(rng.integers(0, len(SHAPES)))]
    if i < 3 * len(SHAPES) ** 2:
        # every (input shape, output shape) pair at least three times (once per argument form), then random pairs
        ins, outs = SHAPES[(i // 3) % len(SHAPES)], SHAPES[(i // 3) // len(SHAPES)]
    P = make_map(rng, ins, outs)
    x = rng.uniform(0.2, 1.0, size=ins) * rng.choice([-1.0, 1.0], size=ins)
    xkind = "array"
    if ins == () and rng.uniform() < 0.5:
        x = float(x)
        xkind = "pyfloat"
    return {"kind": "map", "P": {"A": enc(P["A"]), "B": enc(P["B"]), "C": enc(P["C"]), "in": P["in"], "out": P["out"]}, "x": enc(x), "xkind": xkind, "a": float(rng.uniform(0.5, 1.5)), "b": float(rng.uniform(-0.5, 0.5)), "scale": float(rng.uniform(0.5, 1.5)), "argform": ["int", "int_kwshift", "unary"][i % 3], "vseed": int(rng.integers(0, 2**31))}


def run_shard(pid, tier, seed, idx, n):
    common.setup_repo()
    res = _new_result()
    total = 1600 if tier == "quick" else 16000
    for i in range(idx, total, n):
        rng = onp.random.Generator(onp.random.PCG64([seed, i, 23]))
        case = make_case(rng, i)
        try:
            run_case(res, case)
        except Exception:
            res["not_judged"]["harness_error"] = res["not_judged"].get("harness_error", 0) + 1
            res["sets"].setdefault("harness_errors", set()).add(traceback.format_exc()[-400:])
    if idx == 0:
        holomorphic_cases(res, onp.random.Generator(onp.random.PCG64([seed, 29])))
    res["sets"] = {k: sorted(v) for k, v in res["sets"].items()}
    return res


def replay(pid, case):
    common.setup_repo()
    res = _new_result()
    if case.get("kind") == "holo":
        holomorphic_cases(res, onp.random.Generator(onp.random.PCG64(1)))
    else:
        run_case(res, case)
    return res


def post(pid, tier, agg):
    out = []
    if agg["not_judged"].get("harness_error", 0) > 0:
        out.append("harness errors: %d" % agg["not_judged"]["harness_error"])
    need = ["jacobian", "grad", "elementwise_grad", "hessian", "hessian_tensor_product", "tensor_jacobian_product", "make_hvp", "make_ggnvp", "make_jvp_reversemode", "deriv", "make_jvp", "make_vjp", "value_and_grad", "grad_and_aux", "grad_named"]
    missing = [o for o in need if not agg["counters"].get("op:" + o)]
    if missing:
        out.append("operators never reached: %s" % missing)
    return out
