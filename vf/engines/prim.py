"""Engine `prim`: one-primitive call configurations (G-prim) judged at the public API boundary.

Serves C01 (rev, real), C02 (fwd, real), C04 (adjointness + linearity), C05 (structure),
C07 (order 2, mixed modes), C09 (complex convention, both modes)."""
import operator
import os
import time
import traceback
import warnings

import numpy as onp

from .. import common
from ..common import (FDResult, all_finite, conj_tree, dec, enc, fd_directional, fd_onesided, find_boxes, is_float_valued, pair, rand_like, realify, sdesc, sdesc_diff, sig_key, unrealify, values_equal_nan, vhash)
from ..gen import catalogue

LEVEL = "exploration"
RULE = {
    "C01": "G-prim catalogue (every differentiable primitive x option classes x ranks 0-4 x broadcast patterns x scalar/array x argnum x call form), data drawn from a seeded generator; a case is non-trivial iff NumPy accepts the call, the output is float-valued, autograd returned without raising and the Richardson finite-difference oracle on raw NumPy was self-consistent (err<=1e-8) for at least one direction; distinct = distinct case signatures (primitive, form, arg kinds/ranks, kwarg classes, argnum, point class, tags) among judged cases.",
}
for _p in ("C02", "C04", "C05", "C07", "C09"):
    RULE[_p] = RULE["C01"]
RULE["C02"] = RULE["C01"].replace("autograd returned", "autograd's forward mode returned")
RULE["C04"] = "Same catalogue (real and complex data); a case is non-trivial iff both make_vjp and make_jvp returned for it; judged by the exact adjoint identity <conj g, J v> = <conj vjp(g), v> (tolerance 1e-10 relative to the sum of absolute products) and linearity of both maps; no numerical differentiation involved. distinct = distinct signatures."
RULE["C05"] = "Same catalogue (real, complex, reduced-precision and kind/broadcast mixes); non-trivial iff a VJP or JVP result was returned and its structural descriptor (container nesting, shape, real/complex, dtype for float64/complex128) was compared with that of the argument (VJP) or the output (JVP). distinct = distinct signatures."
RULE["C07"] = "Catalogue at order 2 (real configurations plus those that really involve complex data; two-operand configurations also with both operands differentiated jointly = mixed second derivatives, including kind-mixed real/complex operand pairs; a jointly differentiated configuration whose mixed modes return while rev-over-rev raises is a violation): phi(x)=<w,f(x)>, and for a third of the configurations (all of linalg) also the weighted squared residual 0.5*sum a|f(x)-f(x0)|^2 whose cotangent is exactly zero at x0 yet traced (judged only where one-sided derivatives of the gradient agree); Hessian-vector products by rev-over-rev, fwd-over-rev, rev-over-fwd and v'Hv by fwd-over-fwd compared with each other, with a Richardson FD of autograd's first-order gradient and a raw-NumPy second difference; symmetry <u,Hv>=<v,Hu>. Non-trivial iff at least two mode combinations returned and the FD reference was self-consistent. distinct = distinct signatures."
RULE["C09"] = "Catalogue restricted to calls NumPy accepts with complex data: every real/complex assignment of the arguments, complex-typed data on the real axis (zero imaginary parts) for the unary / linalg / fft functions, complex bases in the left half plane for power; reverse result compared with conj(J_R^T conj g) and forward result with J_R v where J_R is the realified Jacobian from the FD oracle; J_R v additionally obtained by reverse mode applied to the cotangent -> VJP map at the zero cotangent (the make_jvp_reversemode / make_ggnvp path). Non-trivial as for C01. distinct = distinct signatures."
ASSUMPTIONS = {
    p: [
        "NumPy's own functions evaluated on plain arrays define the true function; the Jacobian reference is a 6th-order Richardson central difference of it (self-estimated error <= 1e-8, mismatch threshold 1e-6 relative)",
        "points are generic by sampling away from domain edges (distinct entries for order statistics, well-conditioned matrices for linalg), not by proof",
        "only configuration classes in vf/gen/catalogue.py are generated",
    ]
    for p in ("C01", "C02", "C05", "C07", "C09")
}
ASSUMPTIONS["C04"] = ["identity is algebraic; holds iff the two rule tables describe the same linear map at the point; a rule wrong in both tables identically is invisible here (C01/C02 catch it)"]

MODE = {"C01": "rev", "C02": "fwd", "C04": "pair", "C05": "struct", "C07": "order2", "C09": "cplx"}

OPS = {"neg": operator.neg, "abs": abs, "add": operator.add, "sub": operator.sub, "mul": operator.mul, "truediv": operator.truediv, "pow": operator.pow, "mod": operator.mod, "matmul": operator.matmul}


def nshards(pid, tier):
    return 16


def shard_timeout(pid, tier):
    return 900 if tier == "quick" else 3400


# ---------------------------------------------------------------- case -> callables


class _LazyNS(dict):
    """ns name -> module; scipy namespaces are imported on demand (secondary interpreter only)."""

    def __init__(self, which, base):
        super().__init__(base)
        self.which = which

    def __missing__(self, ns):
        import importlib

        if not ns.startswith("scipy"):
            raise KeyError(ns)
        if self.which == "np":
            parts = ns.split(".")
            mod = importlib.import_module(".".join(parts[:2]))
            for p_ in parts[2:]:
                mod = getattr(mod, p_)
        else:
            mod = importlib.import_module("autograd." + ns)
        self[ns] = mod
        return mod


def _mods(which):
    if which == "np":
        import numpy.fft
        import numpy.linalg

        return _LazyNS("np", {"numpy": _NpShim(), "linalg": onp.linalg, "fft": onp.fft})
    common.setup_repo()
    import autograd.numpy as anp
    import autograd.numpy.fft as afft
    import autograd.numpy.linalg as ala

    return _LazyNS("ag", {"numpy": anp, "linalg": ala, "fft": afft})


class _NpShim:
    """Plain NumPy namespace; names that exist only in autograd.numpy (make_diagonal) resolve to the
    *raw primal* function autograd wraps (`.fun`), never to a rule."""

    def __getattr__(self, name):
        try:
            return getattr(onp, name)
        except AttributeError:
            common.setup_repo()
            import autograd.numpy as anp

            f = getattr(anp, name)
            return getattr(f, "fun", f)


def _set_path(container, path, x):
    """Return a copy of nested list/tuple `container` with element at `path` replaced."""
    if not isinstance(path, (tuple, list)):
        path = (path,)
    i = path[0]
    c = list(container)
    c[i] = x if len(path) == 1 else _set_path(c[i], path[1:], x)
    return tuple(c) if isinstance(container, tuple) else c


def _get_path(container, path):
    if not isinstance(path, (tuple, list)):
        path = (path,)
    for i in path:
        container = container[i]
    return container


def build(case_dec, which):
    """Return (call, x0): call(x) evaluates the configuration with x in the differentiated slot."""
    mods = _mods(which)
    prim, ns, form = case_dec["prim"], case_dec["ns"], case_dec["form"]
    args, kwargs_, argnum = case_dec["args"], case_dec["kwargs"], case_dec["argnum"]
    outsel = case_dec.get("outsel")
    fresh_out = case_dec.get("fresh_out")  # [shape, dtype-name]: a new output buffer for `out=` on every call

    import collections.abc

    class _KW(collections.abc.Mapping):
        """kwargs with a per-call fresh `out=` buffer (each ** expansion allocates a new one)."""

        def __init__(self, d):
            self.d = d

        def __iter__(self):
            return iter(list(self.d) + ["out"])

        def __len__(self):
            return len(self.d) + 1

        def __getitem__(self, k):
            if k == "out":
                return onp.zeros(tuple(fresh_out[0]), dtype=fresh_out[1])
            return self.d[k]

    out_pos = case_dec.get("fresh_out_pos")  # the fresh buffer goes there POSITIONALLY instead of out=
    kwargs = _KW(kwargs_) if (fresh_out and out_pos is None) else kwargs_

    def with_buf(a):
        if out_pos is None:
            return a
        a = list(a)
        assert len(a) == out_pos, "fresh_out_pos must directly follow the listed arguments"
        # (positional options that FOLLOW the buffer, e.g. keepdims of a reduction)
        return a + [onp.zeros(tuple(fresh_out[0]), dtype=fresh_out[1])] + list(case_dec.get("fresh_out_after") or [])

    dup = case_dec.get("dup")
    mod = mods[ns]

    def finish(y):
        if outsel:
            for i in outsel:
                y = y[i]
        return y

    if form in ("listfun", "selectfun", "indexer"):
        li = 0 if form != "selectfun" else 1
        x0 = _get_path(args[li], argnum)
        dup_paths = case_dec.get("dup_paths")  # the same (traced) object in several slots of the list
        alltraced = case_dec.get("alltraced") and form == "listfun"
        if alltraced:
            # every element of the list is differentiated: x is the tuple of them
            x0 = tuple(args[li])

        def call(x):
            a = list(args)
            if alltraced:
                a[li] = type(args[li])(x[k] for k in range(len(args[li])))
            elif dup_paths:
                for pth in dup_paths:
                    a[li] = _set_path(a[li], pth, x)
            else:
                a[li] = _set_path(a[li], argnum, x)
            if form == "indexer":
                return finish(getattr(mod, prim)[tuple(a[0])])
            return finish(getattr(mod, prim)(*a, **kwargs))

        return call, x0

    joint = case_dec.get("joint")
    if joint:
        # several positional arguments differentiated jointly: x is the tuple of them (mixed second derivatives)
        x0 = tuple(args[i] for i in joint)

        def expand(x):
            a = list(args)
            for k, i in enumerate(joint):
                a[i] = x[k]
            return a

    elif dup:
        count = 2 if dup is True else int(dup)
        x0 = args[argnum]

        def expand(x):
            return list(args[:argnum]) + [x] * count + list(args[argnum + 1 :])

    else:
        x0 = args[argnum]

        def expand(x):
            a = list(args)
            a[argnum] = x
            return a

    if form == "function":
        f = getattr(mod, prim)
        if which == "np" and ns == "scipy.signal" and prim == "convolve":
            # autograd.scipy.signal.convolve is its own function (axes / dot_axes options, N-d 'valid'):
            # the reference is its raw primal, never its rule
            common.setup_repo()
            import autograd.scipy.signal as _sig

            f = _sig.convolve.fun
        return (lambda x: finish(f(*with_buf(expand(x)), **kwargs))), x0
    if form == "method":

        def call(x):
            a = expand(x)
            return finish(getattr(a[0], prim)(*a[1:], **kwargs))

        return call, x0
    if form == "operator":
        f = OPS[prim]
        return (lambda x: finish(f(*expand(x)))), x0
    if form == "property":
        return (lambda x: finish(getattr(expand(x)[0], prim))), x0
    raise ValueError("form %r" % form)


# ---------------------------------------------------------------- signatures


def classify(v):
    if v is None:
        return "none"
    if isinstance(v, (bool, onp.bool_)):
        return "true" if v else "false"
    if isinstance(v, onp.integer):
        return "npint:" + ("zero" if v == 0 else ("pos" if v > 0 else "neg"))
    if isinstance(v, int):
        return "zero" if v == 0 else ("pos" if v > 0 else "neg")
    if isinstance(v, float):
        if v == onp.inf:
            return "inf"
        if v == -onp.inf:
            return "-inf"
        return "s"
    if isinstance(v, complex):
        return "z"
    if isinstance(v, onp.floating):
        return "n"
    if isinstance(v, onp.complexfloating):
        return "nz"
    if isinstance(v, str):
        return "str:" + v
    if isinstance(v, onp.ndarray):
        k = v.dtype.kind
        if k in "fc":
            s = ("r" if k == "f" else "c") + str(v.ndim)
            if v.dtype not in (onp.dtype("float64"), onp.dtype("complex128")):
                s += ":" + v.dtype.name
            if v.ndim >= 2 and v.shape[-1] != v.shape[-2]:
                s += "n"  # last two dimensions differ (non-square)
            if v.ndim and 1 in v.shape:
                s += "o"
            if v.size == 0:
                s += "e"
            return s
        return {"i": "iarray", "u": "iarray", "b": "barray"}.get(k, "array") + str(v.ndim)
    if isinstance(v, (tuple, list)):
        pre = "tuple" if isinstance(v, tuple) else "list"
        if all(isinstance(t, (int, onp.integer)) and not isinstance(t, bool) for t in v):
            s = pre + str(len(v))
            if any(t < 0 for t in v):
                s += "_neg"
            if len(set(v)) != len(v):
                s += "_rep"
            return s
        return pre + "[" + ",".join(classify(t) for t in v) + "]"
    if isinstance(v, onp.dtype):
        return "dtype:" + v.name
    if isinstance(v, type):
        return "type:" + v.__name__
    if v is Ellipsis:
        return "ellipsis"
    if isinstance(v, slice):
        return "slice"
    return type(v).__name__


def signature(case_dec, mode):
    sig = {
        "engine": "prim",
        "prim": case_dec["prim"],
        "ns": case_dec["ns"],
        "form": case_dec["form"],
        "mode": mode,
        "argnum": case_dec["argnum"] if not isinstance(case_dec["argnum"], (tuple, list)) else list(case_dec["argnum"]),
        "args": [classify(a) for a in case_dec["args"]],
        "kw": {k: classify(v) for k, v in case_dec["kwargs"].items()},
        "point": case_dec.get("point", "regular"),
    }
    for k in ("bcast", "tags", "outsel", "dup", "domain", "layout", "outer", "joint", "dup_paths", "fresh_out", "fresh_out_pos", "fresh_out_after"):
        if case_dec.get(k) is not None:
            sig[k] = case_dec[k]
    return sig


# ---------------------------------------------------------------- evaluation


class Outcome:
    def __init__(self, status, reason=None, symptom=None, detail=None, extra=None):
        self.status, self.reason, self.symptom, self.detail, self.extra = status, reason, symptom, detail, extra or {}


def _herm(x):
    return (x + onp.conj(onp.swapaxes(x, -1, -2))) / 2


def _restrict(v, domain):
    if domain == "herm":
        return _herm(onp.asarray(v))
    if domain == "tril":
        return onp.tril(onp.asarray(v))
    if domain == "triu":
        return onp.triu(onp.asarray(v))
    return v


def _direction(rng, x0, domain):
    v = rand_like(rng, x0)
    return _restrict(v, domain)


def _exc_name(e):
    return type(e).__name__


SUSPECT = ("NameError", "UnboundLocalError", "AttributeError", "IndexError", "KeyError", "AssertionError", "ZeroDivisionError")


def relayout(a, layout):
    """Memory layout class of the differentiated argument: same values, different strides."""
    if layout is None or not isinstance(a, onp.ndarray) or a.ndim < 1:
        return a
    if layout == "F":
        return onp.asfortranarray(a)
    if layout == "strided":
        big = onp.zeros(tuple(2 * n for n in a.shape), dtype=a.dtype)
        view = big[tuple(slice(None, None, 2) for _ in a.shape)]
        view[...] = a
        return view
    if layout == "reversed":
        return onp.ascontiguousarray(a[(slice(None, None, -1),) * a.ndim])[(slice(None, None, -1),) * a.ndim]
    raise ValueError(layout)


def prepare(case_dec, allow_empty=False):
    """Common first stage: build callables, check that NumPy accepts the call, build realified F."""
    try:
        ncall, x0 = build(case_dec, "np")
        acall, _ = build(case_dec, "ag")
    except (AttributeError, ImportError) as e:
        return None, Outcome("not_judged", "no_such_function", detail=str(e)[:100])
    layout = case_dec.get("layout")
    if layout:
        # the oracle perturbs x through fresh arrays: re-impose the layout on every evaluation so that both
        # sides see the same (values, strides) class
        ncall_, acall_ = ncall, acall
        ncall = lambda x: ncall_(relayout(x, layout))
        acall = lambda x: acall_(x)
        x0 = relayout(x0, layout)
    if isinstance(x0, (int, onp.integer, bool)) or not is_float_valued(x0):
        return None, Outcome("not_judged", "nonfloat_argument")
    try:
        with warnings.catch_warnings():
            warnings.simplefilter("ignore")
            with onp.errstate(all="ignore"):
                y0 = ncall(x0)
    except Exception as e:
        return None, Outcome("not_judged", "numpy_rejects_config", detail=_exc_name(e))
    if not is_float_valued(y0):
        return None, Outcome("not_judged", "nonfloat_output")
    if (realify(y0).size == 0 or realify(x0).size == 0) and not allow_empty:
        return None, Outcome("not_judged", "empty")
    if not all_finite(y0):
        return None, Outcome("not_judged", "nonfinite_primal")

    def F(xf):
        with warnings.catch_warnings():
            warnings.simplefilter("ignore")
            return realify(ncall(unrealify(xf, x0)))

    if case_dec.get("point", "regular") == "regular" and not allow_empty:
        # a regular point has a neighbourhood inside the domain: the raw function must stay finite (and keep its
        # shape) a small step away in a dense direction, e.g. x**p is not a function of p near p=2 for x<0
        try:
            xf0 = realify(x0)
            dvec = onp.cos(onp.arange(1, xf0.size + 1) * 1.7) + 0.31
            hh = 1e-4 * max(1.0, float(onp.max(onp.abs(xf0))) if xf0.size else 1.0)
            with onp.errstate(all="ignore"):
                for sgn in (1.0, -1.0):
                    yn = F(xf0 + sgn * hh * dvec)
                    if yn.shape != realify(y0).shape or not onp.all(onp.isfinite(yn)):
                        return None, Outcome("not_judged", "irregular_point", detail="raw function not finite next to the point")
        except Exception:
            return None, Outcome("not_judged", "irregular_point", detail="raw function fails next to the point")
    return (ncall, acall, x0, y0, F), None


def _reduced(v):
    return any(onp.asarray(l).dtype not in (onp.dtype("float64"), onp.dtype("complex128")) for l in common.leaves(v))


def _struct_check(expected_like, got, strict_dtype_if_default=True):
    """Compare structure; dtype is only compared for float64/complex128 expectations."""
    a, b = sdesc(expected_like), sdesc(got)
    d = sdesc_diff(a, b)
    if d == "wrong_dtype":
        # only default precision is fixed by the property
        la = [onp.asarray(l).dtype for l in common.leaves(expected_like)]
        lb = [onp.asarray(l).dtype for l in common.leaves(got)]
        for x, y in zip(la, lb):
            if x in (onp.dtype("float64"), onp.dtype("complex128")) and x != y:
                return "wrong_dtype"
        return None
    return d


def eval_rev(case_dec, rng, K=3, full_max=24, check_values=True):
    prep, out = prepare(case_dec, allow_empty=not check_values)
    if out:
        return out
    ncall, acall, x0, y0, F = prep
    from autograd.core import make_vjp

    point = case_dec.get("point", "regular")
    domain = case_dec.get("domain")
    h_in = vhash(case_dec["args"])
    extra = {}
    try:
        with warnings.catch_warnings():
            warnings.simplefilter("ignore")
            with onp.errstate(all="ignore"):
                vjp, yA = make_vjp(acall, x0)
                g = rand_like(rng, y0)
                r = vjp(g)
    except Exception as e:
        return Outcome("not_judged", "raised:" + _exc_name(e), detail=str(e)[:200], extra={"suspect": _exc_name(e) in SUSPECT})
    if vhash(case_dec["args"]) != h_in:
        extra["input_mutated"] = 1
    if find_boxes(r) or find_boxes(yA):
        return Outcome("violation", symptom="tracer_leak", detail="Box in result")
    if not values_equal_nan(yA, y0):
        extra["primal_mismatch"] = 1
    d = _struct_check(x0, r)
    if d:
        return Outcome("violation", symptom=d, detail="arg %s result %s" % (sdesc(x0), sdesc(r)), extra=extra)
    if not check_values or _reduced(y0) or _reduced(x0):
        return Outcome("ok", extra=extra)
    if not all_finite(r):
        return Outcome("violation", symptom="nan", detail="non-finite cotangent at %s point: %s" % (point, common.brief(r)), extra=extra)
    xf = realify(x0)
    rr = realify(conj_tree(r))
    gg = realify(conj_tree(g))
    n = xf.size
    dirs = []
    if domain not in ("herm", "tril", "triu"):
        if n <= full_max:
            dirs = [("e%d" % i, onp.eye(n)[i]) for i in range(n)]
        else:
            idx = rng.choice(n, size=min(6, n), replace=False)
            dirs = [("e%d" % i, onp.eye(n)[i]) for i in idx]
    if point == "regular" or domain in ("herm", "tril", "triu"):
        for k in range(K):
            dirs.append(("v%d" % k, realify(_direction(rng, x0, domain))))
    elif n > full_max:
        # kink points: one-sided bounds are only meaningful per scalar kink -> basis directions
        dirs = [("e%d" % i, onp.eye(n)[i]) for i in range(n)]
    judged = 0
    worst = None
    for (nm, v) in dirs:
        lhs = pair(rr, v)
        if point == "regular":
            fd = fd_directional(F, xf, v)
            if not fd.ok:
                extra["irregular_dirs"] = extra.get("irregular_dirs", 0) + 1
                continue
            rhs = pair(gg, fd.val)
            tol = 1e-6 * (1.0 + float(onp.sum(onp.abs(gg * fd.val))))
            judged += 1
            if not abs(lhs - rhs) <= tol:
                worst = "dir %s: <vjp(g),v>=%r expected <g,Jv>=%r (fd err %.1e)" % (nm, lhs, rhs, fd.err)
                break
        else:
            dp, ep = fd_onesided(F, xf, v, +1)
            dm, em = fd_onesided(F, xf, v, -1)
            if not (onp.all(onp.isfinite(dp)) and onp.all(onp.isfinite(dm))) or max(ep, em) > 1e-6 * (1 + float(onp.max(onp.abs(dp))) + float(onp.max(onp.abs(dm)))):
                extra["irregular_dirs"] = extra.get("irregular_dirs", 0) + 1
                continue
            a, b = pair(gg, dp), pair(gg, dm)
            lo, hi = min(a, b), max(a, b)
            tol = 1e-5 * (1.0 + abs(lo) + abs(hi))
            judged += 1
            if not (lo - tol <= lhs <= hi + tol):
                worst = "kink dir %s: <vjp(g),v>=%r outside one-sided range [%r,%r]" % (nm, lhs, lo, hi)
                break
    if worst:
        return Outcome("violation", symptom="wrong_value", detail=worst, extra=extra)
    if judged == 0:
        return Outcome("not_judged", "irregular_point", extra=extra)
    extra["dirs"] = judged
    return Outcome("ok", extra=extra)


def _jvp_by_reverse_twice(acall, x0, y0):
    """J v obtained the way make_jvp_reversemode / make_ggnvp obtain it: reverse mode applied to the
    cotangent -> VJP map, taken at the zero cotangent (autograd's complex convention makes the result J_R v)."""
    from autograd.core import make_vjp

    g0 = common.tree_map(lambda a: onp.zeros(onp.shape(a), dtype=onp.asarray(a).dtype) if onp.ndim(a) else onp.asarray(a).dtype.type(0), y0)
    back, _ = make_vjp(lambda g: make_vjp(acall, x0)[0](g), g0)
    return lambda v: (y0, back(v))


def eval_fwd(case_dec, rng, K=2, check_values=True, via="jvp"):
    prep, out = prepare(case_dec, allow_empty=not check_values)
    if out:
        return out
    ncall, acall, x0, y0, F = prep
    from autograd.core import make_jvp

    if via == "rev2":
        if case_dec.get("point", "regular") != "regular":
            return Outcome("not_judged", "rev2_regular_points_only")
        make_jvp = lambda f, x: _jvp_by_reverse_twice(f, x, y0)

    point = case_dec.get("point", "regular")
    domain = case_dec.get("domain")
    extra = {}
    xf = realify(x0)
    judged = 0
    for k in range(K):
        v = _direction(rng, x0, domain)
        try:
            with warnings.catch_warnings():
                warnings.simplefilter("ignore")
                with onp.errstate(all="ignore"):
                    yA, t = make_jvp(acall, x0)(v)
        except Exception as e:
            return Outcome("not_judged", "raised:" + _exc_name(e), detail=str(e)[:200], extra={"suspect": _exc_name(e) in SUSPECT})
        if find_boxes(t) or find_boxes(yA):
            return Outcome("violation", symptom="tracer_leak", detail="Box in result")
        if not values_equal_nan(yA, y0):
            extra["primal_mismatch"] = 1
        d = _struct_check(y0, t)
        if d == "wrong_dtype" and _reduced(x0):
            d = None  # the dtype clause is stated for default-precision values only
        if d:
            return Outcome("violation", symptom=d, detail="output %s tangent %s" % (sdesc(y0), sdesc(t)), extra=extra)
        if not check_values or _reduced(y0) or _reduced(x0):
            return Outcome("ok", extra=extra)
        if not all_finite(t):
            return Outcome("violation", symptom="nan", detail="non-finite tangent at %s point" % point, extra=extra)
        tt = realify(t)
        vv = realify(v)
        if point == "regular":
            fd = fd_directional(F, xf, vv)
            if not fd.ok:
                extra["irregular_dirs"] = extra.get("irregular_dirs", 0) + 1
                continue
            tol = 1e-6 * (1.0 + float(onp.max(onp.abs(fd.val))))
            judged += 1
            bad = onp.abs(tt - fd.val) > tol
            if onp.any(bad):
                i = int(onp.argmax(onp.abs(tt - fd.val)))
                return Outcome("violation", symptom="wrong_value", detail="tangent[%d]=%r expected %r (fd err %.1e); %d/%d entries off" % (i, tt[i], fd.val[i], fd.err, int(bad.sum()), tt.size), extra=extra)
        else:
            dp, ep = fd_onesided(F, xf, vv, +1)
            dm, em = fd_onesided(F, xf, vv, -1)
            if not (onp.all(onp.isfinite(dp)) and onp.all(onp.isfinite(dm))) or max(ep, em) > 1e-6 * (1 + float(onp.max(onp.abs(dp))) + float(onp.max(onp.abs(dm)))):
                extra["irregular_dirs"] = extra.get("irregular_dirs", 0) + 1
                continue
            lo, hi = onp.minimum(dp, dm), onp.maximum(dp, dm)
            tol = 1e-5 * (1.0 + onp.abs(lo) + onp.abs(hi))
            judged += 1
            bad = (tt < lo - tol) | (tt > hi + tol)
            if onp.any(bad):
                i = int(onp.argmax(bad))
                return Outcome("violation", symptom="wrong_value", detail="kink tangent[%d]=%r outside [%r,%r]" % (i, tt[i], lo[i], hi[i]), extra=extra)
    if judged == 0:
        return Outcome("not_judged", "irregular_point", extra=extra)
    return Outcome("ok", extra=extra)


def eval_pair(case_dec, rng):
    prep, out = prepare(case_dec)
    if out:
        return out
    ncall, acall, x0, y0, F = prep
    from autograd.core import make_jvp, make_vjp

    domain = case_dec.get("domain")
    try:
        with warnings.catch_warnings():
            warnings.simplefilter("ignore")
            with onp.errstate(all="ignore"):
                vjp, _ = make_vjp(acall, x0)
                jvp = make_jvp(acall, x0)
                g1, g2 = rand_like(rng, y0), rand_like(rng, y0)
                v1, v2 = _direction(rng, x0, domain), _direction(rng, x0, domain)
                a, b = float(rng.uniform(0.5, 2.0)), float(rng.uniform(-2.0, -0.5))
                r1, r2 = vjp(g1), vjp(g2)
                t1, t2 = jvp(v1)[1], jvp(v2)[1]
                G, V = realify(g1), realify(v1)
                g3 = unrealify(a * realify(g1) + b * realify(g2), g1)
                v3 = unrealify(a * realify(v1) + b * realify(v2), v1)
                r3 = vjp(g3)
                t3 = jvp(v3)[1]
    except Exception as e:
        return Outcome("not_judged", "raised:" + _exc_name(e), detail=str(e)[:200], extra={"suspect": _exc_name(e) in SUSPECT})
    for val in (r1, r2, r3, t1, t2, t3):
        if not all_finite(val):
            return Outcome("not_judged", "nonfinite_derivative")
    try:
        R1, R2, R3 = realify(conj_tree(r1)), realify(conj_tree(r2)), realify(conj_tree(r3))
        T1, T2, T3 = realify(t1), realify(t2), realify(t3)
        G1c = realify(conj_tree(g1))
        V1 = realify(v1)
        if R1.shape != V1.shape or T1.shape != G1c.shape:
            return Outcome("violation", symptom="wrong_shape", detail="vjp result size %s vs arg %s; tangent size %s vs output %s" % (R1.shape, V1.shape, T1.shape, G1c.shape))
    except Exception as e:
        return Outcome("not_judged", "harness:" + _exc_name(e))
    if domain == "herm":
        pass
    lhs = pair(G1c, T1)
    rhs = pair(R1, V1)
    ymax = float(onp.max(onp.abs(realify(y0))))
    # values computed in float16 / float32 carry that precision's rounding: scale the identities' tolerances
    prec = 1.0
    for l in common.leaves([x0, y0, r1, t1]):
        dt_ = onp.asarray(l).dtype
        if dt_.kind in "fc":
            prec = max(prec, float(onp.finfo(dt_).eps) / float(onp.finfo(onp.float64).eps))
    prec = min(prec, 1e13)
    # (1e-10 is ~5e5 ulp: scaled to half / single precision that would exceed the quantities themselves, so the
    # relative part is capped at 2% of the absolute products)
    rel = min(prec * 1e-10, 0.02)
    tol = rel * (float(onp.sum(onp.abs(G1c * T1))) + float(onp.sum(onp.abs(R1 * V1)))) + 1e-12 * float(onp.sum(onp.abs(G1c))) * float(onp.max(onp.abs(V1))) * (1.0 + ymax)
    if not abs(lhs - rhs) <= tol:
        return Outcome("violation", symptom="not_adjoint", detail="<g,JVP(v)>=%r <VJP(g),v>=%r" % (lhs, rhs))
    # linearity (realified R is linear in realified conj g since conj is real-linear)
    sc = rel * (1.0 + float(onp.max(onp.abs(a * R1))) + float(onp.max(onp.abs(b * R2))))
    if R3.shape != R1.shape or float(onp.max(onp.abs(R3 - (a * R1 + b * R2)))) > sc * max(1, 1):
        return Outcome("violation", symptom="vjp_nonlinear", detail="max dev %r" % float(onp.max(onp.abs(R3 - (a * R1 + b * R2)))))
    sc = rel * (1.0 + float(onp.max(onp.abs(a * T1))) + float(onp.max(onp.abs(b * T2))))
    if T3.shape != T1.shape or float(onp.max(onp.abs(T3 - (a * T1 + b * T2)))) > sc:
        return Outcome("violation", symptom="jvp_nonlinear", detail="max dev %r" % float(onp.max(onp.abs(T3 - (a * T1 + b * T2)))))
    return Outcome("ok")


def eval_struct(case_dec, rng):
    o1 = eval_rev(case_dec, rng, check_values=False)
    o2 = eval_fwd(case_dec, rng, check_values=False)
    if o1.status == "violation":
        o1.extra["mode"] = "rev"
        return o1
    if o2.status == "violation":
        o2.extra["mode"] = "fwd"
        return o2
    if o1.status == "ok" or o2.status == "ok":
        return Outcome("ok", extra={"rev": o1.status, "fwd": o2.status})
    return o1


def _inner_ag(w, y):
    """<w, y> with traceable operations; w plain, y possibly traced; containers leaf-wise."""
    import autograd.numpy as anp

    if isinstance(w, (tuple, list)):
        tot = 0.0
        for i in range(len(w)):
            tot = tot + _inner_ag(w[i], y[i])
        return tot
    return anp.sum(anp.real(anp.conj(w) * y))


def _quad_ag(aw, y, y0):
    """0.5 * sum aw*|y - y0|^2 with traceable operations (aw plain positive weights); containers leaf-wise."""
    import autograd.numpy as anp

    if isinstance(aw, (tuple, list)):
        tot = 0.0
        for i in range(len(aw)):
            tot = tot + _quad_ag(aw[i], y[i], y0[i])
        return tot
    d = y - y0
    return 0.5 * anp.sum(aw * anp.real(anp.conj(d) * d))


def _abs_tree(w):
    if isinstance(w, (tuple, list)):
        return tuple(_abs_tree(t) for t in w)
    return onp.abs(w) + 0.5


def eval_order2(case_dec, rng):
    prep, out = prepare(case_dec)
    if out:
        return out
    ncall, acall, x0, y0, F = prep
    if case_dec.get("point", "regular") != "regular":
        return Outcome("not_judged", "kink_point")
    if case_dec.get("domain") == "herm":
        return Outcome("not_judged", "restricted_domain")
    if _reduced(y0) or _reduced(x0):
        # float16/32 values against float64 finite differences: second-order values are not comparable at 1e-6
        return Outcome("not_judged", "reduced_precision")
    from autograd.core import make_jvp, make_vjp

    w = rand_like(rng, y0)
    v = rand_like(rng, x0)
    u = rand_like(rng, x0)
    xf, vf, uf = realify(x0), realify(v), realify(u)
    wf = realify(w)
    # the raw function must be finite on both sides of the point along v (e.g. x**p has no derivative in p for x<0)
    try:
        with onp.errstate(all="ignore"):
            hh = 1e-3 * max(1.0, float(onp.max(onp.abs(xf))) if xf.size else 1.0) / max(1.0, float(onp.max(onp.abs(vf))) if vf.size else 1.0)
            if not (onp.all(onp.isfinite(F(xf + hh * vf))) and onp.all(onp.isfinite(F(xf - hh * vf)))):
                return Outcome("not_judged", "irregular_point")
    except Exception:
        return Outcome("not_judged", "irregular_point")

    # outer function: linear <w, f(x)> (constant cotangent), or the weighted squared residual about the
    # evaluation point itself, whose cotangent is EXACTLY zero at x0 yet varies with x (Hessian = J' W J):
    # rules that inspect the cotangent's value must still be traceable there
    outer = case_dec.get("outer", "linear")
    aw = _abs_tree(w)

    def phi(x):
        if outer == "quad0":
            return _quad_ag(aw, acall(x), y0)
        return _inner_ag(w, acall(x))

    def grad_phi(x):
        vj, val = make_vjp(phi, x)
        return vj(1.0)

    def inner_x(a, b):  # traceable <a,b> in x-space (a plain)
        return _inner_ag(a, b)

    res = {}
    errs = {}

    def attempt(name, fn):
        try:
            with warnings.catch_warnings():
                warnings.simplefilter("ignore")
                with onp.errstate(all="ignore"):
                    res[name] = fn()
        except NotImplementedError as e:
            errs[name] = "NotImplementedError"
        except Exception as e:
            errs[name] = _exc_name(e) + ":" + str(e)[:80]

    # first order gradient must work
    attempt("g", lambda: grad_phi(x0))
    if "g" not in res:
        return Outcome("not_judged", "raised:" + errs["g"].split(":")[0])
    cj = conj_tree
    # (round 9: the traced gradient is paired as it is -- Re(v g) is the realified pairing; the former conj_tree() on it
    # was an identity on a single traced array and raised inside the harness on a traced tuple, so rev-over-rev
    # never ran for jointly differentiated operands)
    attempt("rr_v", lambda: make_vjp(lambda x: inner_x(cj(v), grad_phi(x)), x0)[0](1.0))
    attempt("rr_u", lambda: make_vjp(lambda x: inner_x(cj(u), grad_phi(x)), x0)[0](1.0))
    attempt("fr_v", lambda: make_jvp(grad_phi, x0)(v)[1])
    attempt("rf_v", lambda: make_vjp(lambda x: make_jvp(phi, x)(v)[1], x0)[0](1.0))
    attempt("ff_vv", lambda: make_jvp(lambda x: make_jvp(phi, x)(v)[1], x0)(v)[1])
    got = [k for k in ("rr_v", "fr_v", "rf_v", "ff_vv") if k in res]
    if isinstance(x0, tuple) and "rr_v" in errs and "fr_v" in res and "rf_v" in res and not errs["rr_v"].startswith("NotImplementedError"):
        # round 9: jointly differentiated operands whose mixed second derivative exists in both mixed modes
        # but RAISES in reverse-over-reverse (e.g. a cotangent of the wrong kind met an accumulator)
        return Outcome("violation", symptom="exception:rev_over_rev_only", detail="rev-over-rev raised %s while fwd-over-rev and rev-over-fwd returned" % errs["rr_v"], extra={"modes": got, "errors": errs})
    extra = {"modes": got, "errors": errs}
    if not got:
        return Outcome("not_judged", "unsupported_combination", extra=extra)
    for k in got + (["rr_u"] if "rr_u" in res else []):
        if find_boxes(res[k]):
            return Outcome("violation", symptom="tracer_leak", detail=k, extra=extra)
        if not all_finite(res[k]):
            return Outcome("violation", symptom="nan", detail="%s non-finite" % k, extra=extra)
    # realified Hessian-vector products (of the real function phi on realified x): H v where
    # grad convention: realify(conj grad_phi) = d phi / d x_R
    H = {}
    try:
        for k in ("rr_v", "rf_v"):
            if k in res:
                d = _struct_check(x0, res[k])
                if d:
                    return Outcome("violation", symptom=d, detail="%s: arg %s result %s" % (k, sdesc(x0), sdesc(res[k])), extra=extra)
                H[k] = realify(cj(res[k]))
        if "fr_v" in res:
            d = _struct_check(x0, res["fr_v"])
            if d:
                return Outcome("violation", symptom=d, detail="fr_v: arg %s result %s" % (sdesc(x0), sdesc(res["fr_v"])), extra=extra)
            H["fr_v"] = realify(cj(res["fr_v"]))
    except Exception as e:
        return Outcome("not_judged", "harness:" + _exc_name(e), extra=extra)

    # reference: FD of autograd's first-order gradient (first order is judged by C01)
    def G(xf_):
        with warnings.catch_warnings():
            warnings.simplefilter("ignore")
            # fresh stencil points get the memory layout class of the case (order='A'/'K' read it)
            return realify(cj(grad_phi(relayout(unrealify(xf_, x0), case_dec.get("layout")))))

    fd = fd_directional(G, xf, vf)
    if not fd.ok:
        return Outcome("not_judged", "irregular_point", extra=extra)
    ref = fd.val
    scale = 1.0 + float(onp.max(onp.abs(ref)))
    if outer != "linear":
        # the squared-residual gradient is continuous even across a jump of f whose Jacobian vanishes on one
        # side (floor-like functions): a kink of the gradient that a central difference averages silently.
        # Judge only where the one-sided derivatives of the gradient agree.
        try:
            dp, ep = common.fd_onesided(G, xf, vf, +1)
            dm, em = common.fd_onesided(G, xf, vf, -1)
        except Exception:
            return Outcome("not_judged", "irregular_point", extra=extra)
        if not (onp.all(onp.isfinite(dp)) and onp.all(onp.isfinite(dm))) or float(onp.max(onp.abs(dp - dm))) > 1e-5 * scale:
            return Outcome("not_judged", "irregular_point", extra=extra)
    for k, hv in H.items():
        if hv.shape != ref.shape or float(onp.max(onp.abs(hv - ref))) > 1e-6 * scale:
            return Outcome("violation", symptom="wrong_value", detail="HVP %s deviates from FD-of-gradient by %r (scale %r)" % (k, float(onp.max(onp.abs(hv - ref))) if hv.shape == ref.shape else "shape", scale), extra=extra)
    keys = list(H)
    for i in range(len(keys)):
        for j in range(i + 1, len(keys)):
            if float(onp.max(onp.abs(H[keys[i]] - H[keys[j]]))) > 1e-9 * scale:
                return Outcome("violation", symptom="modes_disagree", detail="%s vs %s differ by %r" % (keys[i], keys[j], float(onp.max(onp.abs(H[keys[i]] - H[keys[j]])))), extra=extra)
    if "ff_vv" in res:
        vhv = pair(vf, ref)
        got_ = float(onp.real(res["ff_vv"]))
        if abs(got_ - vhv) > 1e-6 * (1.0 + float(onp.sum(onp.abs(vf * ref)))):
            return Outcome("violation", symptom="wrong_value", detail="fwd-over-fwd v'Hv=%r expected %r" % (got_, vhv), extra=extra)
    # symmetry <u,Hv> = <v,Hu>
    if "rr_v" in res and "rr_u" in res:
        Hu = realify(cj(res["rr_u"]))
        a_, b_ = pair(uf, H["rr_v"]), pair(vf, Hu)
        if abs(a_ - b_) > 1e-9 * (1.0 + float(onp.sum(onp.abs(uf * H["rr_v"]))) + float(onp.sum(onp.abs(vf * Hu)))):
            return Outcome("violation", symptom="hessian_asymmetric", detail="<u,Hv>=%r <v,Hu>=%r" % (a_, b_), extra=extra)
    if outer != "linear":
        if len(got) < 2:
            extra["single_mode"] = 1
        return Outcome("ok", extra=extra)

    # independent second difference on raw NumPy (loose)
    def P(xf_):
        return onp.array([pair(wf, F(xf_))])

    try:
        h = 1e-3 * max(1.0, float(onp.max(onp.abs(xf)))) / max(1.0, float(onp.max(onp.abs(vf))))
        d2 = []
        for s in (h, h / 2):
            d2.append((P(xf + s * vf)[0] - 2 * P(xf)[0] + P(xf - s * vf)[0]) / s**2)
        d2r = (4 * d2[1] - d2[0]) / 3
        if onp.isfinite(d2r) and abs(d2[1] - d2[0]) < 1e-4 * (1 + abs(d2r)):
            vhv = pair(vf, ref)
            if abs(vhv - d2r) > 1e-4 * (1.0 + abs(d2r) + float(onp.sum(onp.abs(vf * ref)))):
                return Outcome("violation", symptom="wrong_value", detail="v'Hv=%r but raw second difference=%r" % (vhv, d2r), extra=extra)
            extra["second_diff_checked"] = 1
    except Exception:
        pass
    if len(got) < 2:
        extra["single_mode"] = 1
    return Outcome("ok", extra=extra)


def evaluate(case_dec, mode, rng, tier="quick"):
    K = 3 if tier == "quick" else 8
    if mode == "rev":
        return eval_rev(case_dec, rng, K=K)
    if mode == "fwd":
        return eval_fwd(case_dec, rng, K=2 if tier == "quick" else 4)
    if mode == "pair":
        return eval_pair(case_dec, rng)
    if mode == "struct":
        return eval_struct(case_dec, rng)
    if mode == "order2":
        return eval_order2(case_dec, rng)
    raise ValueError(mode)


# ---------------------------------------------------------------- workload assembly


def extra_struct_cases(rng):
    """C05's dedicated kind / precision / broadcast generator (on top of the catalogue)."""
    from ..gen.catalogue import A, case, scal

    kinds = [("s", ()), ("a0", ()), ("a1", (3,)), ("a1n", (1, 3)), ("a2", (2, 3)), ("a3", (2, 2, 3))]

    def mk(kind, shape, cx, dtype=None):
        if kind == "s":
            return scal(rng, "pos", cx)
        a = A(rng, shape, "pos", cx)
        if dtype:
            a = a.astype(dtype)
        return a

    for name in ("add", "subtract", "multiply", "divide", "true_divide", "power", "maximum", "minimum", "arctan2", "hypot", "logaddexp", "where_", "dot_", "outer", "inner", "kron", "matmul_", "tensordot0"):
        for (ka, sa) in kinds:
            for (kb, sb) in kinds:
                for (ca, cb) in ((False, False), (True, True), (False, True), (True, False)):
                    if (ca or cb) and name in ("maximum", "minimum", "arctan2", "hypot", "logaddexp"):
                        continue
                    a, b = mk(ka, sa, ca), mk(kb, sb, cb)
                    for argnum in (0, 1):
                        if name == "where_":
                            c = rng.uniform(size=(2, 3)) > 0.5
                            yield case("where", [c, a, b], argnum=argnum + 1, tags=["kindmix"])
                        elif name == "dot_":
                            yield case("dot", [a, b], argnum=argnum, tags=["kindmix"])
                        elif name == "matmul_":
                            yield case("matmul", [a, b], argnum=argnum, tags=["kindmix"])
                        elif name == "tensordot0":
                            yield case("tensordot", [a, b, 0], argnum=argnum, tags=["kindmix"])
                        else:
                            yield case(name, [a, b], argnum=argnum, tags=["kindmix"])
    # reduced precision arguments (structure only)
    for dt in ("float32", "float16", "complex64"):
        cxx = dt.startswith("complex")
        for name in ("sin", "exp", "square", "negative", "sum", "mean", "ravel", "transpose"):
            yield case(name, [A(rng, (2, 3), "pos", cxx).astype(dt)], tags=["reduced"])
        for name in ("add", "multiply", "dot"):
            yield case(name, [A(rng, (3, 3), "pos", cxx).astype(dt), A(rng, (3, 3), "pos", cxx).astype(dt)], argnum=0, tags=["reduced"])
            yield case(name, [A(rng, (3, 3), "pos", cxx).astype(dt), A(rng, (3, 3), "pos", False)], argnum=0, tags=["reduced", "mixed_precision"])
            yield case(name, [A(rng, (3, 3), "pos", False), A(rng, (3, 3), "pos", cxx).astype(dt)], argnum=0, tags=["reduced", "mixed_precision"])
    for ty in (onp.float32, onp.float64, onp.longdouble):
        for name in ("sin", "square", "exp"):
            yield case(name, [ty(0.7)], tags=["npscalar"])
    # size-0 arrays (structure only), incl. a size-1 axis broadcast against a zero-length axis
    for name in ("sin", "sum", "negative", "ravel", "exp", "cumsum", "transpose", "squeeze"):
        yield case(name, [onp.zeros((0, 3))], tags=["empty"])
        yield case(name, [onp.zeros((2, 0, 1))], tags=["empty"])
    for name in ("add", "subtract", "multiply", "divide", "maximum", "minimum", "power", "arctan2", "hypot", "logaddexp", "mod"):
        for (sa, sb) in (((1, 3), (0, 3)), ((0, 3), (1, 3)), ((4, 1), (4, 0)), ((1,), (0,)), ((0,), ()), ((1, 1), (0, 2)), ((2, 1, 3), (2, 0, 3)), ((3,), (0, 3))):
            for argnum in (0, 1):
                yield case(name, [onp.ones(sa) * 0.7, onp.ones(sb) * 1.3], argnum=argnum, tags=["empty_bcast"])
    c0 = onp.zeros((0, 3), dtype=bool)
    yield case("where", [c0, onp.ones((1, 3)), onp.ones((0, 3))], argnum=1, tags=["empty_bcast"])
    yield case("where", [c0, onp.ones((0, 3)), onp.ones((1, 1))], argnum=2, tags=["empty_bcast"])
    yield case("dot", [onp.ones((2, 0)), onp.ones((0, 3))], argnum=0, tags=["empty"])
    yield case("matmul", [onp.ones((1, 2, 0)), onp.ones((3, 0, 2))], argnum=0, tags=["empty_bcast"])
    yield case("concatenate", [[onp.ones((0, 3)), onp.ones((2, 3))]], argnum=0, form="listfun", tags=["empty"])
    yield case("clip", [onp.ones((0, 2)), 0.0, 1.0], tags=["empty"])
    # list functions whose pieces differ in kind / precision: the traced piece is real and a constant piece
    # complex (and the other way round), float32 next to float64, an integer piece
    for name, shp, kw in (("concatenate", (3,), {}), ("concatenate", (2, 3), {"axis": 1}), ("stack", (3,), {}), ("vstack", (3,), {}), ("hstack", (3,), {}), ("column_stack", (3,), {}), ("array", (2,), {}), ("row_stack", (2, 3), {})):
        for (ka, kb) in (("r", "c"), ("c", "r"), ("r32", "r"), ("r", "r32"), ("r", "i"), ("c64", "c"), ("r32", "c")):
            def piece(k):
                a = A(rng, shp, "pos", k.startswith("c"))
                if k.endswith("32"):
                    a = a.astype(onp.float32)
                elif k == "c64":
                    a = a.astype(onp.complex64)
                elif k == "i":
                    a = onp.arange(int(onp.prod(shp))).reshape(shp)
                return a

            for argnum in (0, 1):
                pcs = [piece(ka), piece(kb)]
                if pcs[argnum].dtype.kind in "fc":
                    yield case(name, [pcs], kw, argnum=argnum, form="listfun", tags=["kindmix"])
            yield case(name, [[piece(ka), piece(kb), piece(ka)]], kw, argnum=2, form="listfun", tags=["kindmix"])
    yield case("append", [A(rng, (3,), "pos", False), A(rng, (2,), "pos", True)], argnum=0, tags=["kindmix"])
    yield case("append", [A(rng, (3,), "pos", True), A(rng, (2,), "pos", False)], argnum=1, tags=["kindmix"])


def make_cases(pid, tier, seed):
    mode = MODE[pid]
    reps = (2 if pid in ("C01", "C02", "C09") else 1) if tier == "quick" else 6
    out = []
    import os

    if os.environ.get("VF_SCIPY") == "1":
        # secondary interpreter: only the autograd.scipy catalogue
        for rep in range(reps):
            rng = onp.random.Generator(onp.random.PCG64([seed, rep, 78]))
            cs = list(catalogue.scipy_cases(rng))
            for c in cs:
                c["rep"] = rep
            out.extend(cs)
        return [c for c in out if c.get("argnum") is not None]
    for rep in range(reps):
        rng = onp.random.Generator(onp.random.PCG64([seed, rep, 77]))
        if mode in ("rev", "fwd"):
            cs = list(catalogue.all_cases(rng, cx=False))
        elif mode == "order2":
            # real catalogue plus the configurations that really involve complex data (gauge-free selections)
            cs = list(catalogue.all_cases(rng, cx=False)) + [c for c in catalogue.all_cases(rng, cx=True) if _has_complex(c) and not c.get("gauge")]
            # round 9: kind-mixed two-operand configurations (a real next to a complex operand): with both
            # operands differentiated jointly the MIXED second derivative has to come back in each operand's own kind
            cs += [c for c in extra_struct_cases(rng) if "kindmix" in (c.get("tags") or []) and c["form"] == "function" and c.get("argnum") == 0 and len(c["args"]) >= 2]
        elif mode == "cplx":
            # plus the kind-mixed configurations (real next to complex operands / list pieces): the convention
            # decides what a real argument receives from a complex cotangent and vice versa
            cs = list(catalogue.all_cases(rng, cx=True)) + [c for c in extra_struct_cases(rng) if "kindmix" in (c.get("tags") or [])]
        elif mode == "pair":
            cs = list(catalogue.all_cases(rng, cx=False)) + list(catalogue.all_cases(rng, cx=True))
        elif mode == "struct":
            cs = list(catalogue.all_cases(rng, cx=False)) + list(catalogue.all_cases(rng, cx=True)) + list(extra_struct_cases(rng))
        for c in cs:
            c["rep"] = rep
        out.extend(cs)
    out = [c for c in out if c.get("argnum") is not None and c["form"] != "special"]
    # memory-layout class: the same configuration with the differentiated argument Fortran-ordered /
    # a strided view / negatively strided (values identical)
    extra = []
    for k, c in enumerate(out):
        if c["form"] in ("listfun", "selectfun", "indexer") or c.get("dup") or not isinstance(c["argnum"], int):
            continue
        a = c["args"][c["argnum"]] if c["argnum"] < len(c["args"]) else None
        if isinstance(a, onp.ndarray) and a.ndim >= 2 and a.size > 1 and c.get("point", "regular") == "regular":
            lay = ("F", "strided", "reversed")[k % 3]
            c2 = dict(c)
            c2["layout"] = lay
            extra.append(c2)
    out = out + extra
    # keyword options again by POSITION (following NumPy's own signature; intervening parameters get
    # their NumPy defaults): rules that parse *args / **kwargs themselves must see the same configuration
    import inspect

    nsmods = {"numpy": onp, "linalg": onp.linalg, "fft": onp.fft}
    sigcache = {}
    extra = []
    for c in out:
        if c["form"] != "function" or not c["kwargs"] or c["ns"] not in nsmods or c.get("dup") or c.get("layout") or c.get("joint") or c.get("fresh_out"):
            continue
        key = (c["ns"], c["prim"])
        if key not in sigcache:
            try:
                sigcache[key] = list(inspect.signature(getattr(nsmods[c["ns"]], c["prim"])).parameters.values())
            except (TypeError, ValueError, AttributeError):
                sigcache[key] = None
        params = sigcache[key]
        if not params:
            continue
        names = [p_.name for p_ in params]
        if any(k not in names for k in c["kwargs"]) or any(p_.kind not in (p_.POSITIONAL_ONLY, p_.POSITIONAL_OR_KEYWORD) for p_ in params[: max(names.index(k) for k in c["kwargs"]) + 1]):
            continue
        last = max(names.index(k) for k in c["kwargs"])
        if last < len(c["args"]):
            continue
        newargs = list(c["args"])
        ok = True
        for p_ in params[len(c["args"]) : last + 1]:
            if p_.name in c["kwargs"]:
                newargs.append(c["kwargs"][p_.name])
            elif p_.default is inspect.Parameter.empty or type(p_.default).__name__ == "_NoValueType":
                ok = False
                break
            else:
                newargs.append(p_.default)
        if not ok:
            continue
        c2 = dict(c)
        c2["args"] = newargs
        c2["kwargs"] = {}
        c2["tags"] = list(c.get("tags") or []) + ["kw_by_position"]
        extra.append(c2)
    # every boolean / small-integer option NumPy's signature offers, toggled away from its default, on the first
    # configurations of each function: a rule that accepts an option but ignores it must not go unnoticed
    SKIP_OPT = {"out", "subok", "copy", "order", "casting", "dtype", "where", "like", "signature", "extobj", "optimize", "overwrite_input", "check_finite", "assume_unique"}
    toggles = []
    seen_fn = {}
    for c in out:
        if c["form"] != "function" or c["ns"] not in nsmods or c.get("dup") or c.get("layout") or c.get("joint") or c.get("fresh_out") or c.get("tags"):
            continue
        key = (c["ns"], c["prim"])
        seen_fn[key] = seen_fn.get(key, 0) + 1
        if seen_fn[key] > 2:
            continue
        if key not in sigcache:
            try:
                sigcache[key] = list(inspect.signature(getattr(nsmods[c["ns"]], c["prim"])).parameters.values())
            except (TypeError, ValueError, AttributeError):
                sigcache[key] = None
        params = sigcache[key]
        if not params:
            continue
        for p_ in params[len(c["args"]):]:
            if p_.name in c["kwargs"] or p_.name in SKIP_OPT or p_.kind not in (p_.POSITIONAL_OR_KEYWORD, p_.KEYWORD_ONLY):
                continue
            if isinstance(p_.default, bool):
                vals = [not p_.default]
            elif isinstance(p_.default, int) and not isinstance(p_.default, bool) and -2 <= p_.default <= 2:
                vals = [p_.default + 1]
            else:
                continue
            for v_ in vals:
                c2 = dict(c)
                c2["kwargs"] = dict(c["kwargs"], **{p_.name: v_})
                c2["tags"] = ["option_toggle"]
                toggles.append(c2)
                # ... and the toggled option once more BY POSITION (NumPy's parameter order, which a rule's own
                # signature need not share), when every parameter in between has a passable default
                if p_.kind == p_.POSITIONAL_OR_KEYWORD:
                    names_ = [q.name for q in params]
                    last_ = names_.index(p_.name)
                    newargs, ok_ = list(c["args"]), last_ >= len(c["args"])
                    for q in params[len(c["args"]) : last_ + 1] if ok_ else ():
                        if q.name in c2["kwargs"]:
                            newargs.append(c2["kwargs"][q.name])
                        elif q.kind not in (q.POSITIONAL_ONLY, q.POSITIONAL_OR_KEYWORD) or q.default is inspect.Parameter.empty or type(q.default).__name__ == "_NoValueType" or q.name == "out":
                            ok_ = False
                            break
                        else:
                            newargs.append(q.default)
                    if ok_ and all(k_ in names_[: last_ + 1] for k_ in c2["kwargs"]):
                        c3 = dict(c)
                        c3["args"] = newargs
                        c3["kwargs"] = {}
                        c3["tags"] = ["option_toggle", "kw_by_position"]
                        toggles.append(c3)
    if mode in ("rev", "fwd", "cplx"):
        out = out + extra + toggles
    elif mode in ("pair", "struct", "order2"):
        out = out + extra[::3] + toggles[::3]
    if mode == "cplx":
        # complex-TYPED data that lies on the real axis (real data that became complex on the way): every linalg /
        # fft configuration once more with the imaginary parts of its array arguments set to exactly zero
        zi = []
        for c in out:
            if c["ns"] in ("linalg", "fft") and c["form"] == "function" and not c.get("layout") and not c.get("joint") and not c.get("gauge") and not (set(c.get("tags") or []) - {"values"}) and any(isinstance(a, onp.ndarray) and a.dtype.kind == "c" for a in c["args"]):
                c2 = dict(c)
                c2["args"] = [(a.real + 0j) if isinstance(a, onp.ndarray) and a.dtype.kind == "c" else a for a in c["args"]]
                c2["tags"] = list(c.get("tags") or []) + ["zero_imag"]
                zi.append(c2)
        out = out + [c for k, c in enumerate(zi) if k % 2 == 0 or c["prim"] in ("eig", "eigh", "eigvals", "eigvalsh")]
        # gauge-dependent outputs (eigenvector / singular-vector phases) are not functions of the input
        # alone for complex data: only the gauge-free selections are judged
        out = [c for c in out if not c.get("gauge")]
        # keep only cases that really involve complex data
        out = [c for c in out if _has_complex(c)]
    # several operands differentiated jointly (order 2: mixed second derivatives; order 1: the rule paths
    # taken when two / three or more arguments of one call are traced at once)
    extra = []
    extra3 = []
    isf = lambda a: (isinstance(a, (float, complex, onp.floating, onp.complexfloating)) and not isinstance(a, bool)) or (isinstance(a, onp.ndarray) and a.dtype.kind in "fc")
    for c in out:
        if c["form"] in ("function", "operator") and c["argnum"] == 0 and not c.get("dup") and not c.get("layout") and not c.get("joint") and len(c["args"]) >= 2 and isf(c["args"][0]) and isf(c["args"][1]):
            c2 = dict(c)
            c2["joint"] = [0, 1]
            extra.append(c2)
            if len(c["args"]) >= 3 and isf(c["args"][2]):
                c3 = dict(c)
                c3["joint"] = [0, 1, 2]
                extra3.append(c3)
    if mode == "order2":
        out = out + extra + extra3
    else:
        out = out + extra[::4] + extra3
    if mode == "order2":
        # every third configuration additionally with the zero-cotangent outer function
        extra = []
        for k, c in enumerate(out):
            if k % 3 == 0 or c["ns"] == "linalg" or (c.get("layout") and "order" in c["kwargs"]):
                c2 = dict(c)
                c2["outer"] = "quad0"
                extra.append(c2)
        out = out + extra
    if mode == "order2" and tier == "quick":
        # reduced class set for the quick tier: every second case, all primitives kept
        keep = []
        seen = {}
        sel = onp.random.Generator(onp.random.PCG64([seed, 991]))
        for c in out:
            k = (c["prim"], c["form"], c.get("outer"), bool(c.get("joint")))
            seen[k] = seen.get(k, 0) + 1
            # random (seeded) thinning: a fixed stride aliases with the periodic structure of the generators
            if seen[k] <= 6 or sel.uniform() < 0.34 or (c.get("joint") and c.get("tags")) or (c.get("layout") and "order" in c["kwargs"] and c.get("outer")):
                keep.append(c)
        out = keep
    return out


def _has_complex(c):
    for a in common.leaves([c["args"], list(c["kwargs"].values())]):
        if isinstance(a, complex) or (isinstance(a, (onp.ndarray, onp.generic)) and onp.iscomplexobj(a)):
            return True
    return c["ns"] == "fft"


def run_case(pid, case_dec, rng, tier):
    mode = MODE[pid]
    if mode == "cplx":
        o1 = evaluate(case_dec, "rev", rng, tier)
        if o1.status == "violation":
            return o1, "rev"
        o2 = evaluate(case_dec, "fwd", rng, tier)
        if o2.status == "violation":
            return o2, "fwd"
        # the tangent once more through reverse-over-reverse at the zero cotangent (make_jvp_reversemode,
        # make_ggnvp): a rule that inspects the VALUE of a traced cotangent goes wrong exactly there
        o3 = eval_fwd(case_dec, rng, K=1, via="rev2")
        if o3.status == "violation":
            o3.symptom = "rev2:" + str(o3.symptom)
            return o3, "rev2"
        if o1.status == "ok" and o3.status == "ok":
            o1.extra["rev2"] = 1
        if o1.status == "ok":
            o1.extra["fwd"] = o2.status if o2.status == "ok" else o2.reason
            return o1, "rev+fwd" if o2.status == "ok" else "rev"
        return (o2, "fwd") if o2.status == "ok" else (o1, "rev")
    o = evaluate(case_dec, mode, rng, tier)
    return o, o.extra.get("mode", mode)


def encode_case(c):
    d = dict(c)
    d["args"] = enc(c["args"])
    d["kwargs"] = enc(c["kwargs"])
    d["argnum"] = enc(c["argnum"])
    return d


def decode_case(d):
    c = dict(d)
    c["args"] = dec(d["args"])
    c["kwargs"] = dec(d["kwargs"])
    a = dec(d["argnum"])
    c["argnum"] = a
    return c


def _new_result():
    return {"evaluations": 0, "judged": {}, "violations": [], "not_judged": {}, "counters": {}, "sets": {}, "samples": [], "info": {}}


def _record(res, pid, c, o, mode, sample_every=400):
    res["evaluations"] += 1
    sig = signature(c, mode)
    cnt = res["counters"]
    for k in ("primal_mismatch", "input_mutated", "irregular_dirs", "second_diff_checked", "single_mode", "rev2"):
        if o.extra.get(k):
            cnt[k] = cnt.get(k, 0) + int(o.extra[k])
    if o.status == "ok":
        k = sig_key(sig)
        res["judged"][k] = res["judged"].get(k, 0) + 1
        res["sets"].setdefault("prims_judged", set()).add(c["prim"])
        if o.extra.get("modes"):
            for m in o.extra["modes"]:
                cnt["order2_" + m] = cnt.get("order2_" + m, 0) + 1
        if res["evaluations"] % sample_every == 1:
            res["samples"].append({"sig": sig, "args": [common.brief(a, 160) for a in c["args"]], "kwargs": common.brief(c["kwargs"], 160), "outcome": "ok"})
    elif o.status == "violation" and c["ns"].startswith("scipy") and c["ns"] != "scipy.signal":
        # autograd.scipy.{special,stats,linalg} are not named by the property statements (only
        # autograd.numpy/.linalg/.fft and, through the anchors of C01, scipy.signal): observations there
        # are reported in the evidence, never as verdicts
        res["sets"].setdefault("outside_statement_observations", set()).add("%s.%s %s %s: %s" % (c["ns"], c["prim"], mode, o.symptom, (o.detail or "")[:120]))
        res["counters"]["outside_statement_observations"] = res["counters"].get("outside_statement_observations", 0) + 1
    elif o.status == "violation":
        sig["symptom"] = o.symptom
        res["violations"].append({"sig": sig, "case": encode_case(c), "detail": o.detail})
        k = sig_key(sig)
        res["judged"][k] = res["judged"].get(k, 0) + 1
    else:
        r = o.reason or "unknown"
        res["not_judged"][r] = res["not_judged"].get(r, 0) + 1
        if r.startswith("raised:"):
            res["sets"].setdefault("raised", set()).add("%s/%s %s" % (c["ns"], c["prim"], r[7:]))
            if o.extra.get("suspect"):
                res["sets"].setdefault("suspect_raises", set()).add("%s/%s %s: %s" % (c["ns"], c["prim"], r[7:], (o.detail or "")[:80]))
        if o.extra.get("errors"):
            for m, e in o.extra["errors"].items():
                res["sets"].setdefault("order2_errors", set()).add("%s %s %s" % (c["prim"], m, e[:60]))


def order2_program(res, rng, i):
    """C07 on random dataflow programs (fan-out, diamonds, multi-edges, sparse/dense mixes, user
    primitives): Hessian-vector products by rev-over-rev, fwd-over-rev, rev-over-fwd must agree with each
    other and with the FD derivative of the first-order gradient; <u,Hv> = <v,Hu>."""
    import autograd.numpy as anp
    from autograd.core import make_jvp, make_vjp

    from ..gen import programs
    from .graph import RAW_USER, user_prims

    U = user_prims()
    shape = [(3,), (2, 2), (4,)][i % 3]
    prog = programs.gen_program(rng, n_ops=int(rng.choice([4, 8, 14, 22])), shape=shape, p_dead=0.15, p_multi=float(rng.choice([0.0, 0.3, 0.6])), families=("unary", "binary", "alias", "sparse", "reduce", "user"), fan=int(rng.integers(1, 6)))
    x = rng.uniform(0.3, 1.2, size=shape) * rng.choice([-1.0, 1.0], size=shape)
    st = programs.structure_signature(prog)
    sig = {"engine": "prim", "family": "program_order2", "ops": st["ops"], "n_ops": min(st["n_ops"] // 10 * 10, 30), "multi_edges": min(st["multi_edges"], 3), "max_fanout": min(st["max_fanout"], 5), "mode": "order2"}
    case = {"kind": "program_order2", "prog": programs.enc_program(prog), "x": enc(x)}
    res["evaluations"] += 1
    if not st["depends_on_x"] or not programs.well_scaled(prog, x, RAW_USER, bound=1e3):
        res["not_judged"]["ill_scaled_or_independent"] = res["not_judged"].get("ill_scaled_or_independent", 0) + 1
        return
    if any(o["op"] == "maxs" for o in prog["ops"]):
        pass
    f = lambda t: programs.interpret(prog, t, anp, U)
    gradf = lambda t: make_vjp(f, t)[0](1.0)
    v = rng.standard_normal(shape)
    u = rng.standard_normal(shape)

    def viol(symptom, detail):
        s2 = dict(sig, symptom=symptom)
        res["violations"].append({"sig": s2, "case": case, "detail": detail})
        res["judged"][sig_key(s2)] = res["judged"].get(sig_key(s2), 0) + 1

    with warnings.catch_warnings():
        warnings.simplefilter("ignore")
        try:
            rr_v = make_vjp(lambda t: anp.sum(gradf(t) * v), x)[0](1.0)
            rr_u = make_vjp(lambda t: anp.sum(gradf(t) * u), x)[0](1.0)
            fr_v = make_jvp(gradf, x)(v)[1]
            rf_v = make_vjp(lambda t: make_jvp(f, t)(v)[1], x)[0](1.0)
            ff_vv = make_jvp(lambda t: make_jvp(f, t)(v)[1], x)(v)[1]
        except NotImplementedError:
            res["not_judged"]["unsupported_combination"] = res["not_judged"].get("unsupported_combination", 0) + 1
            return
        except Exception as e:
            return viol("exception:" + type(e).__name__, traceback.format_exc()[-400:])
        xf, vf = realify(x), realify(v)
        G = lambda t_: realify(gradf(unrealify(t_, x)))
        fd = fd_directional(G, xf, vf)
    if not fd.ok:
        res["not_judged"]["irregular_point"] = res["not_judged"].get("irregular_point", 0) + 1
        return
    scale = 1.0 + float(onp.max(onp.abs(fd.val)))
    for nm, hv in (("rr", rr_v), ("fr", fr_v), ("rf", rf_v)):
        if find_boxes(hv) or onp.shape(hv) != shape:
            return viol("wrong_shape", "%s HVP %r" % (nm, onp.shape(hv)))
        if float(onp.max(onp.abs(realify(hv) - fd.val))) > 1e-6 * scale:
            return viol("wrong_value", "%s HVP deviates from FD-of-gradient by %r (scale %r)" % (nm, float(onp.max(onp.abs(realify(hv) - fd.val))), scale))
    if float(onp.max(onp.abs(realify(rr_v) - realify(fr_v)))) > 1e-9 * scale or float(onp.max(onp.abs(realify(rr_v) - realify(rf_v)))) > 1e-9 * scale:
        return viol("modes_disagree", "rr/fr/rf HVPs differ")
    if abs(float(ff_vv) - pair(vf, realify(rr_v))) > 1e-9 * (1.0 + float(onp.sum(onp.abs(vf * realify(rr_v))))):
        return viol("modes_disagree", "fwd-over-fwd v'Hv %r vs %r" % (float(ff_vv), pair(vf, realify(rr_v))))
    a_, b_ = pair(realify(u), realify(rr_v)), pair(vf, realify(rr_u))
    if abs(a_ - b_) > 1e-9 * (1.0 + float(onp.sum(onp.abs(realify(u) * realify(rr_v)))) + float(onp.sum(onp.abs(vf * realify(rr_u))))):
        return viol("hessian_asymmetric", "<u,Hv>=%r <v,Hu>=%r" % (a_, b_))
    res["judged"][sig_key(sig)] = res["judged"].get(sig_key(sig), 0) + 1
    res["counters"]["order2_programs"] = res["counters"].get("order2_programs", 0) + 1


def run_shard(pid, tier, seed, idx, n):
    common.setup_repo()
    cases = make_cases(pid, tier, seed)
    res = _new_result()
    res["info"]["total_cases"] = len(cases)
    from autograd.core import primitive_jvps, primitive_vjps

    res["info"]["live_vjp_rules"] = len(primitive_vjps)
    res["info"]["live_jvp_rules"] = len(primitive_jvps)
    t0 = time.time()
    for i in range(idx, len(cases), n):
        c = cases[i]
        rng = onp.random.Generator(onp.random.PCG64([seed, i, 5]))
        try:
            o, mode = run_case(pid, c, rng, tier)
        except Exception as e:
            res["not_judged"]["harness_error"] = res["not_judged"].get("harness_error", 0) + 1
            res["sets"].setdefault("harness_errors", set()).add("%s: %s" % (c["prim"], traceback.format_exc()[-300:]))
            res["evaluations"] += 1
            continue
        _record(res, pid, c, o, mode)
    if pid == "C07" and os.environ.get("VF_SCIPY") != "1":
        nprog = 1200 if tier == "quick" else 20000
        for i in range(idx, nprog, n):
            try:
                order2_program(res, onp.random.Generator(onp.random.PCG64([seed, i, 107])), i)
            except Exception:
                res["not_judged"]["harness_error"] = res["not_judged"].get("harness_error", 0) + 1
                res["sets"].setdefault("harness_errors", set()).add(traceback.format_exc()[-300:])
    res["sets"] = {k: sorted(v) for k, v in res["sets"].items()}
    res["counters"]["wall_ms"] = int((time.time() - t0) * 1000)
    return res


def replay(pid, case_enc):
    common.setup_repo()
    if isinstance(case_enc, dict) and case_enc.get("kind") == "program_order2":
        from ..gen import programs

        res = _new_result()
        # re-run through the same evaluator with the stored program
        prog = programs.dec_program(case_enc["prog"])
        x = dec(case_enc["x"])
        import autograd.numpy as anp
        from autograd.core import make_jvp, make_vjp
        from .graph import user_prims

        f = lambda t: programs.interpret(prog, t, anp, user_prims())
        gradf = lambda t: make_vjp(f, t)[0](1.0)
        v = onp.ones(onp.shape(x))
        rr = make_vjp(lambda t: anp.sum(gradf(t) * v), x)[0](1.0)
        fr = make_jvp(gradf, x)(v)[1]
        fd = fd_directional(lambda t_: realify(gradf(unrealify(t_, x))), realify(x), realify(v))
        sig = {"engine": "prim", "family": "program_order2"}
        if fd.ok and (float(onp.max(onp.abs(realify(rr) - fd.val))) > 1e-6 * (1 + float(onp.max(onp.abs(fd.val)))) or float(onp.max(onp.abs(realify(rr) - realify(fr)))) > 1e-9 * (1 + float(onp.max(onp.abs(fd.val))))):
            res["violations"].append({"sig": dict(sig, symptom="wrong_value"), "case": case_enc, "detail": "HVP mismatch"})
        else:
            res["judged"]["replay"] = 1
        return res
    c = decode_case(case_enc)
    res = _new_result()
    for t in range(3):
        rng = onp.random.Generator(onp.random.PCG64([12345, t]))
        o, mode = run_case(pid, c, rng, "thorough")
        _record(res, pid, c, o, mode, sample_every=1)
        if o.status == "violation":
            break
    res["sets"] = {k: sorted(v) for k, v in res["sets"].items()}
    return res


SECONDARY = "/opt/veriftools/pyvenv/bin/python"


def secondary_jobs(pid, tier, seed):
    """Extra worker under the secondary interpreter (CPython 3.11, other NumPy, SciPy present): the
    autograd.scipy primitives (signal.convolve is an anchor of C01) can only be executed there."""
    import os

    if pid not in ("C01", "C02", "C04", "C05", "C07") or not os.path.exists(SECONDARY):
        return []
    return [("scipy", SECONDARY, {"VF_SCIPY": "1"}, [pid, "--tier", tier, "--seed", str(seed), "--shard", "0", "--nshards", "1"])]


def post(pid, tier, agg):
    out = []
    if agg["not_judged"].get("harness_error", 0) > 0.02 * max(1, agg["evaluations"]):
        out.append("harness errors on %d cases" % agg["not_judged"]["harness_error"])
    if len(agg["sets"].get("prims_judged", ())) < 40:
        out.append("fewer than 40 primitives judged")
    return out
