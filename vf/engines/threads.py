"""Engine `threads` (C20): concurrent differentiations under a deterministic cooperative scheduler.

Exactly one worker thread runs at a time; at every yield point (trace entry/exit through the wrapped
TraceStack.new_trace, explicit points between operations of the generated programs, and - thorough
tier - LINE events inside autograd/tracer.py) the scheduler picks the next thread from the schedule.
Bounded configurations are explored exhaustively by stateless DFS over the decision sequence; larger
ones by burst-biased random schedules; plus a free-running stress. Verdict: each thread's result must
be bitwise equal to its solo result."""
import sys
import threading
import time
import traceback
import warnings

import numpy as onp

from .. import common
from ..common import sig_key

LEVEL = "exploration"
RULE = "2-4 threads each running a differentiation program on its own data (nested grad exposing trace-level confusion, Hessian-vector product of a small net, make_jvp of grad, flat grad, jacobian of a container program, shared operator objects, flatten / flatten_func of a parameter tree, real FFTs with per-thread options, per-thread precision parameter lists, a thread whose differentiations fail and are caught, one checkpoint(fun) object shared by all threads) under a deterministic scheduler with yield points at trace entry/exit, rule applications, operation events (before every primitive call, after every raw evaluation), explicit points and LINE events of the rule modules. Bounded configurations (2 threads x <= 6 yield points, 3 threads x <= 3) are enumerated exhaustively by DFS over all interleavings; larger ones get burst-biased random schedules; a free-running stress (switch interval 1e-6) complements them. A schedule is non-trivial iff at least one context switch happened while some thread was inside a trace; distinct = distinct decision sequences (interleavings)."
ASSUMPTIONS = ["schedules at event/line granularity, not inside one bytecode line", "threads work on unrelated data (no tracer object crosses threads)"]
EXHAUSTIVE = {"C20": "all interleavings of the bounded configurations listed in coverage.info.exhaustive_configs"}


def nshards(pid, tier):
    return 16


def _new_result():
    return {"evaluations": 0, "judged": {}, "violations": [], "not_judged": {}, "counters": {}, "sets": {}, "samples": [], "info": {}}


# ---------------------------------------------------------------- scheduler


class Deadlock(Exception):
    pass


class Sched:
    def __init__(self):
        self.active = False
        self.tls = threading.local()
        self.kinds = set()

    def run(self, progs, prefix=(), policy=None, kinds=("enter_after", "exit_before", "explicit"), timeout=20.0):
        """progs: list of zero-arg callables. Returns (results, errors, trace) where trace is the list of
        (n_alternatives, chosen) decisions."""
        n = len(progs)
        self.n = n
        self.sems = [threading.Semaphore(0) for _ in range(n)]
        self.done = [False] * n
        self.results = [None] * n
        self.errors = [None] * n
        self.trace = []
        self.prefix = list(prefix)
        self.policy = policy
        self.kinds = set(kinds)
        self.all_done = threading.Event()
        self.switches_in_trace = 0
        self.in_trace = [0] * n
        self.lock_owner = None
        self.active = True

        def body(i):
            self.tls.idx = i
            self.sems[i].acquire()
            try:
                with warnings.catch_warnings():
                    warnings.simplefilter("ignore")
                    self.results[i] = progs[i]()
            except BaseException as e:
                self.errors[i] = e
            finally:
                self.done[i] = True
                self.tls.idx = None
                self._next(i, finished=True)

        ths = [threading.Thread(target=body, args=(i,), daemon=True) for i in range(n)]
        for t in ths:
            t.start()
        first = self._decide(list(range(n)), None)
        self.sems[first].release()
        ok = self.all_done.wait(timeout)
        self.active = False
        if not ok:
            # release everybody so that daemon threads can die
            for s in self.sems:
                s.release()
            raise Deadlock()
        for t in ths:
            t.join(1.0)
        return self.results, self.errors, self.trace

    def _decide(self, runnable, cur):
        k = len(self.trace)
        if k < len(self.prefix):
            c = self.prefix[k]
            if c >= len(runnable):
                c = 0
        elif self.policy is not None:
            c = self.policy(runnable, cur, k)
        else:
            c = 0
        self.trace.append((len(runnable), c))
        return runnable[c]

    def _next(self, i, finished=False):
        runnable = [j for j in range(self.n) if not self.done[j]]
        if not runnable:
            self.all_done.set()
            return
        nxt = self._decide(runnable, i)
        if nxt != i:
            if any(self.in_trace):
                self.switches_in_trace += 1
            self.sems[nxt].release()
            if not finished:
                self.sems[i].acquire()

    def yield_point(self, kind):
        if not self.active or kind not in self.kinds:
            return
        i = getattr(self.tls, "idx", None)
        if i is None:
            return
        self._next(i)

    def note_trace(self, delta):
        i = getattr(self.tls, "idx", None)
        if i is not None and self.active:
            self.in_trace[i] += delta


SCHED = Sched()
_installed = {}


def install_trace_hook():
    """Wrap TraceStack.new_trace (looked up on the class at call time) with yield points."""
    if _installed.get("trace"):
        return
    common.setup_repo()
    from contextlib import contextmanager

    import autograd.tracer as tracer

    orig = tracer.TraceStack.new_trace

    @contextmanager
    def new_trace(self_):
        SCHED.yield_point("enter_before")
        with orig(self_) as t:
            SCHED.note_trace(+1)
            SCHED.yield_point("enter_after")
            yield t
            SCHED.yield_point("exit_before")
            SCHED.note_trace(-1)
        SCHED.yield_point("exit_after")

    tracer.TraceStack.new_trace = new_trace
    _installed["trace"] = True


def install_op_hook():
    """Yield points at OPERATION events: before every primitive call (tracer.find_top_boxed_args is the first
    thing the primitive wrapper does; the module global is looked up at call time) and after the raw function
    has produced its value, just before the result is boxed (tracer.new_box)."""
    if _installed.get("op"):
        return
    common.setup_repo()
    import autograd.tracer as tracer

    orig_find, orig_new_box = tracer.find_top_boxed_args, tracer.new_box

    def find_top_boxed_args(args):
        SCHED.yield_point("op_before")
        return orig_find(args)

    def new_box(value, trace, node):
        SCHED.yield_point("op_after")
        return orig_new_box(value, trace, node)

    tracer.find_top_boxed_args = find_top_boxed_args
    tracer.new_box = new_box
    _installed["op"] = True


def install_rule_hook():
    """Yield point before every reverse-mode rule application (inside backward passes)."""
    if _installed.get("rule"):
        return
    common.setup_repo()
    import autograd.core as core

    orig_init = core.VJPNode.__init__

    def init(self_, value, fun, args, kwargs, parent_argnums, parents):
        orig_init(self_, value, fun, args, kwargs, parent_argnums, parents)
        inner = self_.vjp

        def vjp(g):
            SCHED.yield_point("rule")
            return inner(g)

        self_.vjp = vjp

    core.VJPNode.__init__ = init
    _installed["rule"] = True


SHARED = {}


def reset_shared():
    """Function objects produced by autograd that several threads share (each thread brings its own
    data / tangent / cotangent); rebuilt before every schedule so that 'first use' races are reachable."""
    import autograd.numpy as anp
    from autograd import grad, make_jvp, make_vjp, value_and_grad

    Y = lambda: SCHED.yield_point("explicit")

    def f2(x, c, scale=1.0):
        Y()
        return anp.sum(anp.sin(x) * c) * scale

    SHARED["grad_f2"] = grad(f2)
    SHARED["vag_f2"] = value_and_grad(f2)

    def f3(x):
        a = anp.sin(x)
        Y()
        return a * x + anp.cumsum(x)

    xs = onp.array([0.3, -1.2, 0.8])
    SHARED["jvp_f3"] = make_jvp(f3)(xs)
    SHARED["hvp_f3"] = make_jvp(grad(lambda t: anp.sum(f3(t) ** 2)))(xs)

    def f4(x):
        a = anp.tanh(x)
        b = a * x
        return anp.concatenate([b, a + b[::-1]])

    SHARED["vjp_f4"] = make_vjp(f4)(xs)[0]

    # operator objects built once and used by all threads at their own points, several times each
    from autograd import hessian, hessian_vector_product, jacobian, make_hvp

    def f5(x):
        a = anp.tanh(x) * x
        Y()
        return anp.sum(a * a) + anp.sum(anp.sin(x))

    from autograd import checkpoint

    def f6(x, c):
        a = anp.tanh(x * c) * x
        Y()
        return anp.concatenate([a * a, anp.sin(x) + c])

    SHARED["ckpt_f6"] = checkpoint(f6)
    SHARED["hvp_f5"] = hessian_vector_product(f5)
    SHARED["hess_f5"] = hessian(f5)
    SHARED["jac_f4"] = jacobian(f4)
    SHARED["make_hvp_f5"] = make_hvp(f5)


class LineYield:
    """thorough tier: yield at LINE events inside autograd/tracer.py (sys.monitoring)."""

    def __init__(self, files=("tracer.py",), kind="line"):
        self.tool = 3
        self.on = False
        self.kind = kind
        import os

        self.paths = {os.path.join(common.REPO, "autograd", f) for f in files}

    def start(self):
        m = sys.monitoring
        m.use_tool_id(self.tool, "vf-lineyield")
        m.register_callback(self.tool, m.events.LINE, self.cb)
        m.set_events(self.tool, m.events.LINE)
        self.on = True

    def cb(self, code, line):
        if code.co_filename not in self.paths:
            return sys.monitoring.DISABLE
        SCHED.yield_point(self.kind)
        return None

    def stop(self):
        if self.on:
            m = sys.monitoring
            m.set_events(self.tool, 0)
            m.free_tool_id(self.tool)
            self.on = False


# ---------------------------------------------------------------- per-thread programs


def programs():
    import autograd.numpy as anp
    from autograd import grad, hessian_vector_product, jacobian, make_jvp

    Y = lambda: SCHED.yield_point("explicit")

    def T1(a, b):
        def outer(x):
            def inner(z):
                Y()
                return x * z**3

            g = grad(inner)(a)
            Y()
            return x * g

        return grad(outer)(b)

    def T2(a, b):
        W = onp.array([[0.2, -0.5, 0.3], [0.7, 0.1, -0.4]]) * a
        x = onp.array([0.3, -1.2, 0.8]) * b

        def net(t):
            h = anp.tanh(anp.dot(W, t))
            Y()
            return anp.sum(h**2)

        return hessian_vector_product(net)(x, onp.array([1.0, -0.5, 0.25]))

    def T3(a, b):
        f = lambda t: anp.sum(anp.sin(t * a) * t)
        x = onp.array([0.3, -1.2, 0.8]) * b

        def g(t):
            r = grad(f)(t)
            Y()
            return r

        return make_jvp(g)(x)(onp.ones(3))[1]

    def T4(a, b):
        def f(t):
            Y()
            return anp.sum(anp.exp(t * a) * t)

        return grad(f)(onp.array([0.1, 0.2, 0.3]) * b)

    def T5(a, b):
        def f(p):
            u = anp.sin(p * a)
            Y()
            return anp.concatenate([u, u[::-1] * b])

        return jacobian(f)(onp.array([0.5, -0.3]) * b)

    def T6(a, b):
        # depth 3: grad of grad of grad with closures over every level
        def l0(x):
            def l1(y):
                def l2(z):
                    Y()
                    return anp.sin(x * y * z) * a

                return grad(l2)(y * 0.5 + 0.1) * y

            return grad(l1)(x + 0.2) * x

        return grad(l0)(b)

    # one function object shared by all threads: autograd.misc.tracers.const_graph caches the traced graph
    # of its first call and replays it afterwards; threads replay it concurrently on unrelated data
    from autograd.extend import defjvp, defvjp, primitive
    from autograd.misc.tracers import const_graph

    if "cg" not in _installed:
        probe = primitive(lambda x: (Y(), x)[1])
        defvjp(probe, lambda ans, x: lambda g: g)
        defjvp(probe, lambda g, ans, x: g)
        cg = const_graph(lambda x: anp.sum(probe(anp.sin(x)) * x + probe(x * x)))
        cg(onp.array([0.1, 0.2, 0.3]))  # build the cached graph once, before any thread starts
        _installed["cg"] = cg
    CG = _installed["cg"]

    def T7(a, b):
        x = onp.array([0.3, -1.2, 0.8]) * b
        return grad(lambda t: CG(t * a) * a)(x)

    def T8(a, b):
        # nested use of the shared cached function
        return grad(lambda s: s * grad(lambda t: CG(t * s))(onp.array([0.5, 0.1, -0.4]) * b)[0])(a)

    def T9(a, b):
        # one grad(f) object shared by all threads, per-thread extra arguments (positional and keyword)
        x = onp.array([0.3, -1.2, 0.8]) * b
        return SHARED["grad_f2"](x, onp.array([1.0, 2.0, 3.0]) * a, scale=a)

    def T10(a, b):
        return SHARED["vag_f2"](onp.array([0.5, 0.1, -0.4]) * a, onp.array([3.0, 1.0, 2.0]) * b)

    def T11(a, b):
        # one pushforward closure shared by all threads, per-thread tangents
        return SHARED["jvp_f3"](onp.array([1.0, -0.5, 0.25]) * a + b)[1]

    def T12(a, b):
        return SHARED["hvp_f3"](onp.array([0.2, 0.7, -1.0]) * b + a)[1]

    def T13(a, b):
        # one pullback closure shared by all threads, per-thread cotangents
        return SHARED["vjp_f4"](onp.arange(1.0, 7.0) * a + b)

    def T14(a, b):
        # a differentiation whose output does not depend on its input (the "independent" exit of trace()),
        # followed by an ordinary one
        import warnings as _w

        with _w.catch_warnings():
            _w.simplefilter("ignore")
            z = grad(lambda y: (Y(), 3.0 * anp.floor(y * a))[1])(b)
            Y()
            z2 = grad(lambda y: 2.0 * a)(b)
        return onp.array([z, z2, grad(lambda y: y * y * a)(b)])

    def T15(a, b):
        # one hessian_vector_product(f) object shared by all threads: two products at this thread's point
        x = onp.array([0.3, -1.2, 0.8]) * b
        h1 = SHARED["hvp_f5"](x, onp.array([1.0, -0.5, 0.25]) * a)
        Y()
        h2 = SHARED["hvp_f5"](x, onp.array([0.5, 1.0, -1.0]))
        return onp.concatenate([h1, h2])

    def T16(a, b):
        x = onp.array([0.4, 0.9, -0.7]) * a
        H = SHARED["hess_f5"](x)
        Y()
        J = SHARED["jac_f4"](x * b)
        hv = SHARED["make_hvp_f5"](x)[0](onp.array([1.0, 2.0, 3.0]) * b)
        return onp.concatenate([onp.ravel(H), onp.ravel(J), hv])

    def T17(a, b):
        # the flattening helpers (themselves built on make_vjp): flatten a parameter tree, differentiate in
        # flat coordinates, map the gradient back - on this thread's own tree
        from autograd.misc.flatten import flatten, flatten_func

        params = {"bias": a * onp.array([0.5, -1.5]), "weights": (b * onp.arange(1.0, 7.0).reshape(2, 3), [a * b])}
        flat, unflatten = flatten(params)
        Y()
        loss = lambda p: anp.sum(anp.sin(p["bias"])) * p["weights"][1][0] + anp.sum(p["weights"][0] ** 2)
        g = grad(lambda v: loss(unflatten(v)))(flat)
        Y()
        ff, unfl, flat0 = flatten_func(lambda p, s: {"l": loss(p) * s, "n": anp.sum(p["bias"])}, params)
        return onp.concatenate([flat, g, ff(flat0, a), jacobian(lambda v: ff(v, b))(flat0).ravel()])

    def T18(a, b):
        # real FFTs of equal length whose normalisation / length options differ between threads
        import autograd.numpy.fft as afft

        norm = "ortho" if b >= 1.0 else None
        x = onp.array([0.3, -1.2, 0.8, 0.4, -0.6, 1.1]) * a
        w = onp.array([1.0, 2.0, -1.0, 0.5])

        def f(t):
            s = afft.rfft(t, norm=norm)
            Y()
            return anp.sum(w * anp.abs(s) ** 2) + anp.sum(afft.irfft(s * (1.0 + 0.5j), n=6 if b >= 1.0 else 8, norm=norm) ** 2)

        g = grad(f)(x)
        Y()
        return onp.concatenate([g, grad(lambda t: anp.sum(anp.real(afft.rfft(t * b, n=6)[1:3])))(x)])

    def T19(a, b):
        # parameter LISTS / dicts of this thread's own precision and shapes, read element by element
        dt = onp.float32 if b >= 1.0 else onp.float64
        ps = [onp.array([0.5, -1.5, 0.25], dtype=dt) * dt(a), onp.arange(1.0, 1.0 + (4 if b >= 1.0 else 5), dtype=dt) * dt(b)]

        def f(p):
            u = p[0]
            Y()
            v = p[1]
            return anp.sum(u * u) * anp.sum(anp.sin(v)) + anp.sum(p[0])

        g = grad(f)(ps)
        d = grad(lambda q: anp.sum(q["k"] ** 2) + q["s"] * 2.0)({"k": ps[1], "s": float(a)})
        return [g[0], g[1], d["k"], onp.asarray(d["s"])]

    def T20(a, b):
        # differentiations whose function / backward pass RAISES inside the trace (caught by this thread), followed
        # by ordinary work: the failure clean-up of one thread is invisible to the others
        out = []
        for kind in ("forward_raises", "rule_raises", "nested_inner_raises"):
            try:
                if kind == "forward_raises":
                    grad(lambda y: (Y(), y * {}["missing"])[1])(b)
                elif kind == "rule_raises":
                    grad(lambda y: anp.sum(anp.cumprod(anp.array([y, y * a]))))(b)  # no VJP: raises when the node is built
                else:
                    grad(lambda x: x * grad(lambda z: (Y(), anp.reshape(z * x, (7,)))[1])(a))(b)
                out.append(1.0)
            except Exception:
                out.append(0.0)
            Y()
        return onp.array(out + [grad(lambda y: y * y * a)(b)])

    def T21(a, b):
        # ONE checkpoint(fun) object shared by all threads: each thread pulls several cotangents (a jacobian, two
        # explicit vjp calls, a second-order product) through its own call of it
        from autograd import make_vjp

        x = onp.array([0.4, 0.9, -0.7]) * a
        ck = SHARED["ckpt_f6"]
        J = jacobian(lambda t: ck(t, b))(x)
        Y()
        vj = make_vjp(lambda t: ck(t * 1.0, b))(x)[0]
        r1 = vj(onp.arange(1.0, 7.0))
        Y()
        r2 = vj(onp.ones(6) * b)
        h = grad(lambda t: anp.sum(grad(lambda u: anp.sum(ck(u, b) ** 2))(t) * onp.array([1.0, -1.0, 0.5])))(x)
        return onp.concatenate([onp.ravel(J), r1, r2, h])

    return {"T20": T20, "T21": T21, "T17": T17, "T18": T18, "T19": T19, "T1": T1, "T2": T2, "T3": T3, "T4": T4, "T5": T5, "T6": T6, "T7": T7, "T8": T8, "T9": T9, "T10": T10, "T11": T11, "T12": T12, "T13": T13, "T14": T14, "T15": T15, "T16": T16}


PARAMS = [(2.0, 1.0), (1.5, 0.7), (0.8, 1.3), (1.1, 0.9)]


def enc(v):
    return common.enc(common.tree_map(onp.asarray, v))


def explore(res, cfg, tier, seed, shard, nshard, budget):
    """cfg: {'progs': [names], 'kinds': [...], 'mode': 'dfs'|'random', 'n': samples}"""
    P = programs()
    names = cfg["progs"]
    thunks = [(lambda nm=nm, pr=PARAMS[i]: P[nm](*pr)) for i, nm in enumerate(names)]
    with warnings.catch_warnings():
        warnings.simplefilter("ignore")
        solo = []
        for t in thunks:
            reset_shared()
            solo.append(enc(t()))
    sig_base = {"engine": "threads", "progs": names, "kinds": sorted(cfg["kinds"]), "mode": cfg["mode"]}
    explored = 0
    violating = 0
    t0 = time.time()

    def one(prefix, policy):
        nonlocal explored, violating
        res["evaluations"] += 1
        try:
            with warnings.catch_warnings():
                warnings.simplefilter("ignore")
                reset_shared()
            results, errors, trace = SCHED.run(thunks, prefix=prefix, policy=policy, kinds=cfg["kinds"])
        except Deadlock:
            res["not_judged"]["timeout"] = res["not_judged"].get("timeout", 0) + 1
            return None
        explored += 1
        choices = [c for (_, c) in trace]
        key = "".join(str(c) for c in choices)
        bad = None
        for i in range(len(names)):
            if errors[i] is not None:
                bad = "thread %d (%s) raised %s: %s (solo run does not raise)" % (i, names[i], type(errors[i]).__name__, str(errors[i])[:200])
                break
            try:
                er = enc(results[i])
            except Exception as e:
                # e.g. a tracer object inside the result: not plain data (the solo run returned plain data)
                bad = "thread %d (%s) returned a value that is not plain numeric data (%s: %s; tracer inside: %s)" % (i, names[i], type(e).__name__, str(e)[:120], bool(common.find_boxes(results[i])))
                break
            if er != solo[i]:
                bad = "thread %d (%s) obtained %s, solo result %s" % (i, names[i], common.brief(results[i], 160), common.brief(common.dec(solo[i]), 160))
                break
        if bad:
            violating += 1
            if violating <= 3:
                s = dict(sig_base, symptom="schedule_interference")
                res["violations"].append({"sig": s, "case": {"kind": "schedule", "cfg": cfg, "choices": choices}, "detail": bad + " | schedule " + key})
        elif SCHED.switches_in_trace > 0 or (len(set(choices)) > 1 and any(nm in ("T11", "T12", "T13", "T15", "T16", "T21") for nm in names)):
            k = sig_key(dict(sig_base, sched=key))
            res["judged"][k] = 1
        else:
            res["not_judged"]["no_switch_inside_trace"] = res["not_judged"].get("no_switch_inside_trace", 0) + 1
        if explored % 500 == 1 and len(res["samples"]) < 8:
            res["samples"].append({"threads": names, "yield_kinds": sorted(cfg["kinds"]), "decisions": key, "switches_inside_trace": SCHED.switches_in_trace, "interfered": bool(bad)})
        return trace

    if cfg["mode"] == "dfs":
        # stateless DFS over decision sequences; the first-level decision subtree is split across shards
        prefix = []
        count = 0
        exhausted = False
        while True:
            tr = one(prefix, None)
            count += 1
            if tr is None:
                break
            # next prefix: last position where another alternative exists
            pos = len(tr) - 1
            while pos >= 0 and tr[pos][1] + 1 >= tr[pos][0]:
                pos -= 1
            if pos < 0:
                exhausted = True
                break
            prefix = [c for (_, c) in tr[:pos]] + [tr[pos][1] + 1]
            if count >= budget:
                break
        res["sets"].setdefault("exhaustive_configs" if exhausted else "truncated_configs", set()).add("%s kinds=%s: %d interleavings" % ("+".join(names), ",".join(sorted(cfg["kinds"])), count))
        res["counters"]["dfs_schedules"] = res["counters"].get("dfs_schedules", 0) + count
    else:
        for s in range(cfg["n"]):
            rng = onp.random.Generator(onp.random.PCG64([seed, shard, s, 83]))
            stick = float(rng.choice([0.5, 0.8, 0.95]))

            def policy(runnable, cur, k, rng=rng, stick=stick):
                if cur in runnable and rng.uniform() < stick:
                    return runnable.index(cur)
                return int(rng.integers(0, len(runnable)))

            one([], policy)
        res["counters"]["random_schedules"] = res["counters"].get("random_schedules", 0) + cfg["n"]
    res["counters"]["violating_schedules"] = res["counters"].get("violating_schedules", 0) + violating
    if violating:
        res["sets"].setdefault("violating_configs", set()).add("%s: %d of %d schedules" % ("+".join(names), violating, explored))


def free_running(res, seed, iters, nthreads):
    P = programs()
    names = ["T1", "T3", "T6", "T2", "T4", "T5", "T7", "T8", "T9", "T11", "T13", "T14", "T15", "T16", "T17", "T18", "T19", "T20", "T21"]
    reset_shared()
    SHARED["vjp_f4"](onp.ones(6))  # the free-running stress shares closures that have been used once
    old = sys.getswitchinterval()
    sys.setswitchinterval(1e-6)
    try:
        solo = {}
        with warnings.catch_warnings():
            warnings.simplefilter("ignore")
            for nm in names:
                for pi, pr in enumerate(PARAMS):
                    solo[(nm, pi)] = enc(P[nm](*pr))
        mism = []
        lock = threading.Lock()
        start = threading.Barrier(nthreads)

        def body(i):
            nm = names[i % len(names)]
            pi = i % len(PARAMS)
            start.wait()
            with warnings.catch_warnings():
                warnings.simplefilter("ignore")
                for it in range(iters):
                    try:
                        r = enc(P[nm](*PARAMS[pi]))
                    except BaseException as e:
                        with lock:
                            mism.append((nm, pi, it, "raised %s" % type(e).__name__))
                        continue
                    if r != solo[(nm, pi)]:
                        with lock:
                            mism.append((nm, pi, it, "value"))

        ths = [threading.Thread(target=body, args=(i,), daemon=True) for i in range(nthreads)]
        for t in ths:
            t.start()
        for t in ths:
            t.join(300)
        res["evaluations"] += nthreads * iters
        res["counters"]["free_running_iterations"] = res["counters"].get("free_running_iterations", 0) + nthreads * iters
        if mism:
            s = {"engine": "threads", "mode": "free_running", "symptom": "schedule_interference"}
            res["violations"].append({"sig": s, "case": {"kind": "free", "iters": iters, "nthreads": nthreads}, "detail": "%d mismatching iterations, first: %s" % (len(mism), mism[:3])})
        else:
            res["judged"][sig_key({"engine": "threads", "mode": "free_running", "n": nthreads})] = 1
    finally:
        sys.setswitchinterval(old)


def configs(tier):
    K2 = ["enter_after", "exit_before", "explicit"]
    KALL = ["enter_before", "enter_after", "exit_before", "exit_after", "explicit"]
    cf = []
    # exhaustive (bounded) configurations
    for pair in (["T1", "T1"], ["T1", "T4"], ["T1", "T3"], ["T4", "T4"], ["T3", "T3"], ["T1", "T5"], ["T6", "T4"], ["T2", "T4"]):
        cf.append({"progs": pair, "kinds": ["enter_after", "exit_before"], "mode": "dfs"})
    cf.append({"progs": ["T1", "T1"], "kinds": K2, "mode": "dfs"})
    cf.append({"progs": ["T4", "T4", "T4"], "kinds": ["enter_after", "exit_before"], "mode": "dfs"})
    cf.append({"progs": ["T1", "T4", "T4"], "kinds": ["enter_after"], "mode": "dfs"})
    cf.append({"progs": ["T1", "T1"], "kinds": ["enter_before", "exit_after"], "mode": "dfs"})
    cf.append({"progs": ["T6", "T1"], "kinds": ["enter_after"], "mode": "dfs"})
    cf.append({"progs": ["T7", "T7"], "kinds": ["explicit", "enter_after"], "mode": "dfs"})
    cf.append({"progs": ["T7", "T8"], "kinds": ["explicit"], "mode": "dfs"})
    cf.append({"progs": ["T7", "T4", "T7"], "kinds": ["explicit"], "mode": "dfs"})
    # shared operator / closure objects, per-thread data
    cf.append({"progs": ["T9", "T9"], "kinds": ["enter_before", "explicit"], "mode": "dfs"})
    cf.append({"progs": ["T9", "T10"], "kinds": ["enter_before", "enter_after", "explicit"], "mode": "dfs"})
    cf.append({"progs": ["T10", "T10", "T9"], "kinds": ["enter_before"], "mode": "dfs"})
    cf.append({"progs": ["T11", "T11"], "kinds": ["explicit", "enter_after"], "mode": "dfs"})
    cf.append({"progs": ["T11", "T12"], "kinds": ["explicit"], "mode": "dfs"})
    cf.append({"progs": ["T12", "T12"], "kinds": ["explicit", "enter_after"], "mode": "dfs"})
    cf.append({"progs": ["T14", "T1"], "kinds": ["enter_after", "exit_after"], "mode": "dfs", "budget": 2500})
    cf.append({"progs": ["T14", "T1"], "kinds": ["enter_before", "exit_after", "explicit"], "mode": "random", "n": 300})
    cf.append({"progs": ["T14", "T14", "T1"], "kinds": ["exit_after", "enter_after"], "mode": "random", "n": 300})
    cf.append({"progs": ["T15", "T15"], "kinds": ["explicit"], "mode": "dfs", "budget": 2500})
    cf.append({"progs": ["T15", "T15"], "kinds": ["explicit", "exit_before", "enter_before"], "mode": "random", "n": 300})
    cf.append({"progs": ["T15", "T16"], "kinds": ["explicit"], "mode": "dfs", "budget": 2500})
    cf.append({"progs": ["T16", "T16"], "kinds": ["explicit", "enter_after"], "mode": "random", "n": 200})
    # helper modules with their own scratch state: flatten, the real-FFT factor helper, container element reads
    cf.append({"progs": ["T17", "T17"], "kinds": ["explicit", "enter_after"], "mode": "dfs", "budget": 1500})
    cf.append({"progs": ["T17", "T17"], "kinds": ["enter_before", "exit_after", "explicit"], "mode": "random", "n": 150})
    cf.append({"progs": ["T17", "T1", "T17"], "kinds": ["line_rules"], "mode": "random", "n": 80})
    cf.append({"progs": ["T18", "T18"], "kinds": ["explicit"], "mode": "dfs", "budget": 1500})
    cf.append({"progs": ["T18", "T18"], "kinds": ["explicit", "enter_after", "exit_before"], "mode": "random", "n": 150})
    cf.append({"progs": ["T18", "T18", "T18"], "kinds": ["line_rules"], "mode": "random", "n": 80})
    cf.append({"progs": ["T19", "T19"], "kinds": ["explicit", "exit_after"], "mode": "dfs", "budget": 1500})
    cf.append({"progs": ["T19", "T19"], "kinds": ["line_rules"], "mode": "random", "n": 150})
    cf.append({"progs": ["T19", "T17", "T18"], "kinds": KALL, "mode": "random", "n": 100})
    # operation events: a switch before any primitive call / after any raw evaluation, inside or outside traces
    cf.append({"progs": ["T1", "T1"], "kinds": ["op_before"], "mode": "dfs", "budget": 2000})
    cf.append({"progs": ["T1", "T4"], "kinds": ["op_after", "enter_after"], "mode": "dfs", "budget": 2000})
    cf.append({"progs": ["T17", "T17"], "kinds": ["op_before"], "mode": "random", "n": 150})
    cf.append({"progs": ["T17", "T19"], "kinds": ["op_after", "explicit"], "mode": "random", "n": 150})
    cf.append({"progs": ["T18", "T18"], "kinds": ["op_before", "op_after"], "mode": "random", "n": 150})
    cf.append({"progs": ["T19", "T19", "T19"], "kinds": ["op_before", "rule"], "mode": "random", "n": 150})
    cf.append({"progs": ["T2", "T5", "T6"], "kinds": ["op_before", "op_after"], "mode": "random", "n": 150})
    cf.append({"progs": ["T13", "T15", "T16"], "kinds": ["op_after", "rule"], "mode": "random", "n": 100})
    # a thread whose differentiations fail (and are caught) next to threads doing nested work
    cf.append({"progs": ["T20", "T1"], "kinds": ["enter_after", "exit_before", "explicit"], "mode": "dfs", "budget": 2500})
    cf.append({"progs": ["T1", "T20"], "kinds": ["enter_before", "exit_after", "explicit"], "mode": "random", "n": 200})
    cf.append({"progs": ["T20", "T1", "T20"], "kinds": KALL, "mode": "random", "n": 150})
    cf.append({"progs": ["T20", "T2", "T1"], "kinds": ["op_before", "exit_before"], "mode": "random", "n": 100})
    cf.append({"progs": ["T21", "T21"], "kinds": ["explicit"], "mode": "dfs", "budget": 2000})
    cf.append({"progs": ["T21", "T21"], "kinds": ["explicit", "rule", "exit_before"], "mode": "random", "n": 200})
    cf.append({"progs": ["T21", "T1", "T21"], "kinds": ["op_before", "explicit"], "mode": "random", "n": 120})
    cf.append({"progs": ["T5", "T5"], "kinds": ["rule"], "mode": "random", "n": 200})
    cf.append({"progs": ["T5", "T4"], "kinds": ["line_bp"], "mode": "random", "n": 120})
    cf.append({"progs": ["T5", "T5"], "kinds": ["line_rules"], "mode": "random", "n": 200})
    cf.append({"progs": ["T5", "T2", "T5"], "kinds": ["line_rules"], "mode": "random", "n": 120})
    cf.append({"progs": ["T3", "T6"], "kinds": ["line_rules"], "mode": "random", "n": 120})
    cf.append({"progs": ["T13", "T13"], "kinds": ["rule"], "mode": "dfs"})
    cf.append({"progs": ["T13", "T13", "T13"], "kinds": ["rule"], "mode": "random", "n": 200})
    cf.append({"progs": ["T1", "T13"], "kinds": ["rule", "enter_after"], "mode": "random", "n": 200})
    cf.append({"progs": ["T13", "T13"], "kinds": ["line_bp"], "mode": "random", "n": 150})
    cf.append({"progs": ["T13", "T11", "T13"], "kinds": ["line_bp"], "mode": "random", "n": 100})
    # sampled configurations
    nrand = 150 if tier == "quick" else 3000
    for progs_ in (["T1", "T3", "T6"], ["T1", "T2", "T3", "T4"], ["T6", "T6"], ["T2", "T5", "T1"], ["T1", "T1", "T1", "T1"], ["T3", "T6", "T5"], ["T7", "T8", "T1"], ["T8", "T8"]):
        cf.append({"progs": progs_, "kinds": KALL, "mode": "random", "n": nrand})
    if tier == "thorough":
        for pair in (["T1", "T1"], ["T1", "T3"], ["T6", "T1"]):
            cf.append({"progs": pair, "kinds": KALL, "mode": "dfs"})
            cf.append({"progs": pair, "kinds": ["line"], "mode": "random", "n": 400})
    return cf


def run_shard(pid, tier, seed, idx, n):
    common.setup_repo()
    install_trace_hook()
    install_rule_hook()
    install_op_hook()
    res = _new_result()
    cf = configs(tier)
    res["info"]["configs"] = len(cf)
    budget = 13000 if tier == "quick" else 60000
    ly = None
    for k, c in enumerate(cf):
        if k % n != idx:
            continue
        try:
            if "line" in c["kinds"]:
                ly = LineYield()
                ly.start()
            elif "line_rules" in c["kinds"]:
                # LINE events inside the derivative rules themselves (shared helper state of a rule module)
                ly = LineYield(files=("numpy/numpy_vjps.py", "numpy/numpy_jvps.py", "numpy/linalg.py", "numpy/fft.py", "builtins.py", "misc/flatten.py"), kind="line_rules")
                ly.start()
            elif "line_bp" in c["kinds"]:
                # LINE events inside the backward pass machinery (toposort, backward_pass, add_outgrads)
                ly = LineYield(files=("util.py", "core.py"), kind="line_bp")
                ly.start()
            explore(res, c, tier, seed, idx, n, min(budget, c["budget"] * (1 if tier == "quick" else 5)) if c.get("budget") else budget)
        except Exception:
            res["not_judged"]["harness_error"] = res["not_judged"].get("harness_error", 0) + 1
            res["sets"].setdefault("harness_errors", set()).add(traceback.format_exc()[-500:])
        finally:
            if ly is not None:
                ly.stop()
                ly = None
    if idx == n - 1:
        try:
            free_running(res, seed, 300 if tier == "quick" else 2000, 16)
        except Exception:
            res["not_judged"]["harness_error"] = res["not_judged"].get("harness_error", 0) + 1
            res["sets"].setdefault("harness_errors", set()).add(traceback.format_exc()[-500:])
    res["sets"] = {k: sorted(v) for k, v in res["sets"].items()}
    return res


def replay(pid, case):
    common.setup_repo()
    install_trace_hook()
    install_rule_hook()
    install_op_hook()
    res = _new_result()
    if case["kind"] == "schedule":
        cfg = case["cfg"]
        P = programs()
        thunks = [(lambda nm=nm, pr=PARAMS[i]: P[nm](*pr)) for i, nm in enumerate(cfg["progs"])]
        with warnings.catch_warnings():
            warnings.simplefilter("ignore")
            solo = []
            for t in thunks:
                reset_shared()
                solo.append(enc(t()))
            reset_shared()
        ly = None
        if "line" in cfg["kinds"]:
            ly = LineYield()
            ly.start()
        elif "line_bp" in cfg["kinds"]:
            ly = LineYield(files=("util.py", "core.py"), kind="line_bp")
            ly.start()
        try:
            results, errors, trace = SCHED.run(thunks, prefix=case["choices"], kinds=cfg["kinds"])
        finally:
            if ly is not None:
                ly.stop()
        for i in range(len(thunks)):
            if errors[i] is not None or enc(results[i]) != solo[i]:
                res["violations"].append({"sig": {"engine": "threads", "progs": cfg["progs"], "symptom": "schedule_interference"}, "case": case, "detail": "thread %d: %s vs solo %s (error %r)" % (i, common.brief(results[i]), common.brief(common.dec(solo[i])), errors[i])})
                break
        else:
            res["judged"]["replay"] = 1
    else:
        free_running(res, 0, case.get("iters", 300), case.get("nthreads", 16))
    return res


def post(pid, tier, agg):
    out = []
    if agg["not_judged"].get("harness_error", 0) > 0:
        out.append("harness errors: %d" % agg["not_judged"]["harness_error"])
    if agg["not_judged"].get("timeout", 0) > 5:
        out.append("scheduler watchdog fired %d times" % agg["not_judged"]["timeout"])
    if agg["counters"].get("dfs_schedules", 0) < 500:
        out.append("fewer than 500 exhaustive schedules explored")
    if not agg["sets"].get("exhaustive_configs"):
        out.append("no configuration was explored exhaustively")
    return out
