"""Engine `values`: C06 (value transparency) and C14 (independence / piecewise-constant => exact zero)."""
import time
import traceback
import warnings

import numpy as onp

from .. import common
from ..common import bits_equal, dec, enc, find_boxes, sdesc, sdesc_diff, sig_key, values_equal_nan, vhash
from ..gen import catalogue, programs
from . import prim as P

LEVEL = "exploration"
RULE = {
    "C06": "(a) every catalogue configuration (real and complex): NumPy's value vs autograd.numpy on plain inputs vs the primal returned by make_vjp / make_jvp / value_and_grad at nesting depth 1 and 2; (b) re-implemented wrappers (array, concatenate, stack, vstack, hstack, column_stack, append, select, r_, c_, make_diagonal, reshape/astype methods) over argument forms (scalars, 0-d, nested lists, int/float mixes, ragged ranks, axis None/negative, ndmin, r_ directives); (c) random programs traced at depth 1-3 vs plain; (d) isinstance/type replacements on every tracer kind; (e) functions wrapped with autograd.misc.tracers.const_graph (keyworded / positional / method / multi-argument calls, arguments bound at wrap time): the recording call (plain or under either mode) and every replay, plain and under make_vjp / make_jvp / value_and_grad / depth 2, vs NumPy; shape queries (shape / ndim / size / len / itemsize) of single-precision, 0-d and empty traced data answer with Python ints exactly like NumPy (a NumPy integer would change the dtype of what is computed from it); (f) output buffers (keyword / positional) of linear primitives under forward mode at depth 1-3: value, buffer content and tangent; the bundled optimizers leave their start point (ndarray, Fortran-ordered matrix, list / dict / tuple trees) unchanged and unaliased. Comparison: structure, dtype, shape, values (NaN==NaN). Non-trivial iff NumPy returned a value and at least one traced evaluation returned. distinct = distinct signatures (function, form, arg classes, kwarg classes, depth).",
    "C14": "(a) programs whose float output is independent of the differentiated argument (constant, other argument, only through non-differentiable functions) x argument types (scalar, array, tuple/list/dict) x every differential operator, result must be an exact zero with the argument's (forward: output's) structure - also in a process that promotes every warning category except UserWarning to an error; (b) every member of the live nograd_functions list called on reverse- and forward-mode tracers at depth 1-2: untraced result equal to NumPy's, locally constant on NumPy; (c) x*q(x) compositions differentiate to q(x) exactly; (d) Python control flow on tracers takes the plain branch; (e) user primitives declared non-differentiable through register_notrace before their first call or after plain / reverse / forward / nested use: plain values back, x*q(x) differentiates to q(x). Non-trivial iff the operator returned and was compared. distinct = distinct (family, operator, argument type, function) signatures.",
}
ASSUMPTIONS = {
    "C06": ["plain Python containers holding tracers are excluded by the property", "a call where autograd raises but NumPy returns is logged as 'narrower signature' and is not a C06 violation (not silent)"],
    "C14": ["the nograd list is read from the live tree; a smooth function wrongly added to it is caught by the local-constancy test"],
}


def nshards(pid, tier):
    return 16


def _new_result():
    return {"evaluations": 0, "judged": {}, "violations": [], "not_judged": {}, "counters": {}, "sets": {}, "samples": [], "info": {}}


def _nj(res, reason):
    res["not_judged"][reason] = res["not_judged"].get(reason, 0) + 1


def _ok(res, sig):
    k = sig_key(sig)
    res["judged"][k] = res["judged"].get(k, 0) + 1


def _viol(res, sig, symptom, case, detail):
    s = dict(sig)
    s["symptom"] = symptom
    res["violations"].append({"sig": s, "case": case, "detail": detail})
    k = sig_key(s)
    res["judged"][k] = res["judged"].get(k, 0) + 1


def _cnt(res, k, n=1):
    res["counters"][k] = res["counters"].get(k, 0) + n


def same_value(a, b, ulps=0):
    """Structure + dtype + shape + values (NaN==NaN). Python float vs np.float64 are distinguished
    only through dtype (both float64)."""
    if isinstance(a, dict) or isinstance(b, dict):
        return isinstance(a, dict) and isinstance(b, dict) and set(a) == set(b) and all(same_value(a[k], b[k], ulps) for k in a)
    if isinstance(a, (tuple, list)) or isinstance(b, (tuple, list)):
        if not (isinstance(a, (tuple, list)) and isinstance(b, (tuple, list))):
            return False
        if isinstance(a, tuple) != isinstance(b, tuple):
            return False
        if hasattr(a, "_fields") != hasattr(b, "_fields"):
            return False
        return len(a) == len(b) and all(same_value(x, y, ulps) for x, y in zip(a, b))
    if isinstance(a, (onp.dtype, type, str)) or isinstance(b, (onp.dtype, type, str)) or a is None or b is None:
        return type(a) is type(b) and a == b
    # Python int vs NumPy integer (sizes, ranks, lengths, counts): NumPy's weak / strong scalar promotion treats
    # them differently, so a shape query answering with np.int64 changes the dtype of what is computed from it
    if isinstance(a, (int, onp.integer)) and isinstance(b, (int, onp.integer)) and not isinstance(a, bool) and not isinstance(b, bool) and (type(a) is int) != (type(b) is int):
        return False
    try:
        x, y = onp.asarray(a), onp.asarray(b)
    except Exception:
        return False
    if x.dtype == object or y.dtype == object:
        return False
    if x.dtype != y.dtype or x.shape != y.shape:
        return False
    if x.dtype.kind == "c":
        # NumPy's own complex kernels differ by an ulp between scalar / array / aligned paths and from
        # Python's complex arithmetic: 4 ulp tolerance for complex values only
        return bool(onp.all((x == y) | (onp.isnan(x) & onp.isnan(y)) | (onp.abs(x - y) <= 4 * onp.finfo(x.real.dtype).eps * onp.abs(y))))
    if ulps and x.dtype.kind == "f":
        return bool(onp.all((x == y) | (onp.isnan(x) & onp.isnan(y)) | (onp.abs(x - y) <= ulps * onp.finfo(x.dtype).eps * onp.abs(y))))
    return bool(onp.array_equal(x, y, equal_nan=x.dtype.kind == "f"))


def describe(v):
    try:
        return "%s %s" % (sdesc(v), common.brief(v, 200))
    except Exception:
        return repr(v)[:200]


# ================================================================ C06 (a): catalogue primal side


def c06_catalogue_case(res, c, rng):
    from autograd import value_and_grad
    from autograd.core import make_jvp, make_vjp

    sig = P.signature(c, "primal")
    sig["engine"] = "values"
    case = {"kind": "cat", "case": P.encode_case(c)}
    try:
        ncall, x0 = P.build(c, "np")
        acall, _ = P.build(c, "ag")
    except Exception:
        return _nj(res, "harness_build")
    if not common.is_float_valued(x0):
        return _nj(res, "nonfloat_argument")
    h0 = vhash(c["args"])
    # operator form on Python scalars: the plain evaluation is Python's own arithmetic (libm pow etc.),
    # not a NumPy function; it agrees with NumPy's kernels only to a few ulp
    ul = 4 if (c["form"] == "operator" and all(isinstance(a, (float, complex, int)) for a in c["args"])) else 0
    _sv = same_value
    same_value_ = lambda a, b: _sv(a, b, ul)
    with warnings.catch_warnings():
        warnings.simplefilter("ignore")
        with onp.errstate(all="ignore"):
            try:
                y0 = ncall(x0)
            except Exception:
                return _nj(res, "numpy_rejects_config")
            # plain call through autograd.numpy
            try:
                yp = acall(x0)
            except Exception as e:
                _cnt(res, "narrower_signature_plain")
                res["sets"].setdefault("narrower", set()).add("%s/%s plain %s" % (c["ns"], c["prim"], type(e).__name__))
                yp = None
            if yp is not None:
                if find_boxes(yp):
                    return _viol(res, sig, "tracer_leak", case, "plain call")
                if not same_value_(yp, y0):
                    return _viol(res, dict(sig, depth=0), "primal_mismatch", case, "autograd.numpy on plain inputs: %s ; NumPy: %s" % (describe(yp), describe(y0)))
            got_any = False
            # depth 1 reverse
            try:
                vjp, y1 = make_vjp(acall, x0)
                got_any = True
                if find_boxes(y1):
                    return _viol(res, dict(sig, depth=1), "tracer_leak", case, "primal of make_vjp")
                if not same_value_(y1, y0):
                    return _viol(res, dict(sig, depth=1, mode="rev"), "primal_mismatch", case, "under make_vjp: %s ; NumPy: %s" % (describe(y1), describe(y0)))
            except Exception as e:
                _cnt(res, "raised_rev")
            # depth 1 forward
            try:
                v = common.rand_like(rng, x0)
                y1f, t = make_jvp(acall, x0)(v)
                got_any = True
                if find_boxes(y1f) or find_boxes(t):
                    return _viol(res, dict(sig, depth=1, mode="fwd"), "tracer_leak", case, "make_jvp result")
                if not same_value_(y1f, y0):
                    return _viol(res, dict(sig, depth=1, mode="fwd"), "primal_mismatch", case, "under make_jvp: %s ; NumPy: %s" % (describe(y1f), describe(y0)))
            except Exception as e:
                _cnt(res, "raised_fwd")
            # depth 2: primal of an inner differentiation evaluated inside an outer one
            try:
                y2 = make_vjp(lambda x: make_vjp(acall, x)[1], x0)[1]
                if find_boxes(y2):
                    return _viol(res, dict(sig, depth=2), "tracer_leak", case, "depth-2 primal")
                if not same_value_(y2, y0):
                    return _viol(res, dict(sig, depth=2, mode="rev.rev"), "primal_mismatch", case, "depth 2: %s ; NumPy: %s" % (describe(y2), describe(y0)))
                y2f = make_jvp(lambda x: make_vjp(acall, x)[1], x0)(common.rand_like(rng, x0))[0]
                if not same_value_(y2f, y0):
                    return _viol(res, dict(sig, depth=2, mode="fwd.rev"), "primal_mismatch", case, "depth 2 (fwd over rev): %s ; NumPy: %s" % (describe(y2f), describe(y0)))
                _cnt(res, "depth2_compared")
            except Exception:
                _cnt(res, "raised_depth2")
    if vhash(c["args"]) != h0:
        return _viol(res, sig, "input_modified", case, "a user-supplied input changed")
    if not got_any and yp is None:
        return _nj(res, "raised")
    _ok(res, sig)
    if res["evaluations"] % 500 == 1:
        res["samples"].append({"sig": sig, "value": describe(y0)[:200]})


# ================================================================ C06 (b): wrapper argument forms


def wrapper_forms(rng):
    f = lambda *s: rng.standard_normal(s)
    i = lambda *s: rng.integers(-3, 4, size=s)
    forms = []
    add = lambda name, args, kw=None, tr=None: forms.append({"name": name, "args": args, "kw": kw or {}, "tr": tr})
    # array
    for a in (1.5, 2, [1.0, 2.0], [1, 2.5], [[1.0, 2.0], [3.0, 4.0]], (1.0, 2.0), [f(2), f(2)], [f(), f()], f(2, 3), f(), [[1, 2], [3, 4]], [f(2), [1.0, 2.0]], [], [[]], [f(1), f(1)], ((1.0,), (2.0,)), [onp.float32(1.5), 2.0], [True, 1.5], i(3), [i(2), f(2)], [1 + 2j, 2.0], [f(2) + 1j * f(2), f(2)]):
        add("array", [a])
        for ndmin in (1, 2, 3):
            add("array", [a], {"ndmin": ndmin})
        add("array", [a], {"dtype": float})
        add("array", [a, float])
    add("array", [f(2, 2)], {"copy": True})
    add("array", [[f(2), f(2)]], {"dtype": onp.float32})
    # concatenate / stack family
    lists = [[f(2, 3), f(2, 3)], [f(2, 3), f(1, 3)], [f(3), f(2)], (f(2, 2), f(2, 2)), [f(2, 3)], [f(2, 2, 2), f(2, 1, 2)], [i(2, 2), f(2, 2)], [f(2), i(3)], [[1.0, 2.0], [3.0]], [f(2, 2), [[1.0, 2.0]]]]
    for L in lists:
        for ax in ("__d__", 0, 1, -1, -2, None):
            kw = {} if ax == "__d__" else {"axis": ax}
            add("concatenate", [L], kw)
            if ax != "__d__" and ax is not None:
                add("concatenate", [L, ax])
    for L in ([f(3), f(3)], [f(2, 2), f(2, 2), f(2, 2)], (f(2), f(2)), [f(), f()], [1.0, 2.0], [f(2, 3)], [i(2), f(2)], [[1.0, 2.0], [3.0, 4.0]], [f(2, 2, 2), f(2, 2, 2)]):
        for ax in ("__d__", 0, 1, -1, -2, 2):
            kw = {} if ax == "__d__" else {"axis": ax}
            add("stack", [L], kw)
    for name, Ls in (("vstack", [[f(3), f(3)], [f(2, 3), f(1, 3)], [f(), f()], (f(3), f(1, 3)), [f(2, 2, 3), f(1, 2, 3)], [1.0, 2.0], [[1.0, 2.0], [3.0, 4.0]], [f(3)], [i(3), f(3)]]),
                     ("hstack", [[f(3), f(2)], [f(2, 3), f(2, 1)], [f(), f()], (f(), f(2)), [f(2, 2, 3), f(2, 1, 3)], [1.0, 2.0], [[1.0], [2.0, 3.0]], [f(2)], [i(2), f(3)]]),
                     ("column_stack", [[f(3), f(3)], [f(3, 2), f(3)], [f(), f()], (f(3), f(3, 1), f(3, 2)), [1.0, 2.0], [[1.0, 2.0], [3.0, 4.0]], [f(2, 3)], [i(3), f(3)], [f(2, 2, 2), f(2, 2, 1)]])):
        for L in Ls:
            add(name, [L])
            if name == "vstack":
                add("row_stack", [L])
    for (a, v, kw) in ((f(3), f(2), {}), (f(2, 3), f(2), {}), (f(2, 3), f(1, 3), {"axis": 0}), (f(2, 3), f(2, 2), {"axis": 1}), (f(2, 3), f(2, 2), {"axis": -1}), (f(3), 1.5, {}), (f(), f(), {}), ([1.0, 2.0], [3.0], {}), (f(2, 2), f(2, 2), {"axis": None}), (i(3), f(2), {}), (f(3), [[1.0], [2.0]], {}), (1.0, 2.0, {}), (f(2, 3), f(3), {"axis": 0})):
        add("append", [a, v], kw)
    c1, c2 = rng.uniform(size=4) > 0.5, rng.uniform(size=4) > 0.5
    for kw in ({}, {"default": 1.5}, {"default": f(4)}, {"default": 2}):
        add("select", [[c1, c2], [f(4), f(4)]], kw)
        add("select", [(c1, c2), (f(4), f(4))], kw)
    add("select", [[c1], [f(4)]])
    add("select", [[rng.uniform(size=(2, 3)) > 0.5], [f(3)]])
    add("select", [[c1, c2], [f(4), 2.0]])
    add("select", [[c1, c2], [1.0, 2.0]])
    add("select", [[c1, c2], [i(4), f(4)]])
    # precision mixes: the result dtype is NumPy's promotion over every choice AND the default
    f32 = lambda *sh: f(*sh).astype(onp.float32)
    for dflt in (onp.float64(1.5), f(4), 1.5, onp.float32(1.5), 2, onp.array(1.5), 1.5 + 0.5j):
        add("select", [[c1, c2], [f32(4), f32(4)]], {"default": dflt})
    add("select", [[c1, c2], [f32(4), f(4)]])
    add("select", [[c1, c2], [f32(4), f(4)]], {"default": f32(4)})
    add("select", [[c1, c2], [f(4).astype(onp.float16), f32(4)]], {"default": onp.float16(0.5)})
    for name in ("concatenate", "stack", "vstack", "hstack", "column_stack"):
        add(name, [[f32(3), f(3)]])
        add(name, [[f32(3), f32(3)]])
        add(name, [[f32(3), i(3)]])
    add("append", [f32(3), f(2)])
    add("append", [f32(3), 1.5])
    add("array", [[f32(2), f(2)]])
    # r_ / c_
    for items in ([f(2), f(3)], [1.0, 2.0, 3.0], [f(2), 1.5, f(2)], [f(2, 2), f(1, 2)], ["1", f(2, 2), f(2, 1)], ["0,2", f(2), f(2)], ["-1", f(2, 2), f(2, 2)], [slice(0, 3), f(2)], [slice(0, 1, 3j), f(2)], [f(2)], [i(2), f(2)], ["0,2,0", f(2), f(2)], [[1.0, 2.0], f(2)], [f(), f()]):
        add("r_", items)
    for items in ([f(3), f(3)], [f(2, 2), f(2, 1)], [1.0, 2.0], [f(3)], [f(2, 2), f(2, 2), f(2, 2)], [[1.0, 2.0], f(2)], [i(3), f(3)]):
        add("c_", items)
    for D in (f(3), f(2, 3), f(2, 2, 3), f(1), i(3)):
        add("make_diagonal", [D], {"axis1": -1, "axis2": -2})
        add("make_diagonal", [D, 0, -1, -2])
    # reshape / astype methods and friends (method forms on traced arrays)
    for (meth, args, kw) in (("reshape", [(3, 2)], {}), ("reshape", [3, 2], {}), ("reshape", [-1], {}), ("reshape", [(6,)], {"order": "F"}), ("reshape", [2, 3], {"order": "F"}), ("reshape", [[3, 2]], {}),
                             ("astype", [float], {}), ("astype", [onp.float32], {}), ("astype", ["float64"], {"copy": False}), ("astype", [complex], {}), ("flatten", [], {}), ("ravel", [], {}),
                             ("T", None, {}), ("shape", None, {}), ("ndim", None, {}), ("size", None, {}), ("dtype", None, {}), ("__len__", [], {}),
                             ("sum", [], {}), ("mean", [0], {}), ("max", [], {"axis": -1}), ("clip", [-0.5, 0.5], {}), ("swapaxes", [0, 1], {}), ("transpose", [], {}), ("squeeze", [], {}),
                             ("cumsum", [], {"axis": 0}), ("prod", [], {}), ("std", [], {}), ("var", [0], {}), ("min", [1], {}), ("repeat", [2], {}), ("trace", [], {}), ("diagonal", [], {}),
                             ("take", [[0, 1]], {}), ("ptp", [], {}), ("compress", [[True, False]], {"axis": 0}), ("cumprod", [], {}), ("all", [], {}), ("any", [], {}), ("argmax", [], {}),
                             ("argmin", [0], {}), ("argsort", [], {}), ("nonzero", [], {}), ("round", [], {}), ("round", [1], {}), ("searchsorted", [0.1], {}), ("argpartition", [1], {})):
        forms.append({"name": "method:" + meth, "args": [f(2, 3)] + (args if args is not None else []), "kw": kw, "tr": 0, "prop": args is None})
    # shape queries of single-precision / 0-d / size-1 data (their answers are Python ints / tuples of ints)
    for data in (f(2, 3).astype(onp.float32), f(4).astype(onp.float16), f(), f(1), f(0, 3)):
        for meth in ("shape", "ndim", "size", "dtype", "T", "real", "imag", "itemsize", "nbytes"):
            forms.append({"name": "method:" + meth, "args": [data], "kw": {}, "tr": 0, "prop": True})
        if data.ndim:
            forms.append({"name": "method:__len__", "args": [data], "kw": {}, "tr": 0})
        for qn in ("size", "ndim", "shape"):
            forms.append({"name": qn, "args": [data], "kw": {}, "tr": 0})
    for k_ in range(4):
        forms.append({"name": "quotient_by_size:%d" % k_, "args": [f(2, 3).astype(onp.float32)], "kw": {}, "tr": 0})
        forms.append({"name": "quotient_by_size:%d" % k_, "args": [f(5).astype(onp.float16)], "kw": {}, "tr": 0})
    return forms


def _call_form(form, xp, sub=None):
    """Evaluate a wrapper form. sub=(path, value) replaces one leaf by a (traced) value."""
    name, args, kw = form["name"], form["args"], form["kw"]
    if sub is not None:
        args = P._set_path(args, sub[0], sub[1])
    if name.startswith("method:"):
        m = name[7:]
        obj = args[0]
        if form.get("prop"):
            return getattr(obj, m)
        if m == "__len__":
            return len(obj)
        return getattr(obj, m)(*args[1:], **kw)
    if name in ("r_", "c_"):
        return getattr(xp, name)[tuple(args)]
    if name.startswith("quotient_by_size:"):
        x_ = args[0]
        return [lambda: xp.sum(x_ * x_) / x_.size, lambda: x_ * x_.ndim, lambda: x_ / len(x_), lambda: xp.mean(x_) * x_.shape[0]][int(name[-1])]()
    return getattr(xp, name)(*args, **kw)


def _float_leaf_paths(args, prefix=()):
    out = []
    for k, a in enumerate(args):
        if isinstance(a, onp.ndarray) and a.dtype.kind == "f":  # any precision
            out.append(prefix + (k,))
        elif isinstance(a, float):
            out.append(prefix + (k,))
        elif isinstance(a, (list, tuple)):
            out.extend(_float_leaf_paths(a, prefix + (k,)))
    return out


def c06_wrapper_case(res, form, rng, idx):
    import autograd.numpy as anp
    from autograd.core import make_jvp, make_vjp

    class NP:
        def __getattr__(self, n):
            try:
                return getattr(onp, n)
            except AttributeError:
                f = getattr(anp, n)
                return getattr(f, "fun", f)

    sig = {"engine": "values", "family": "wrapper", "fn": form["name"], "args": [P.classify(a) for a in form["args"]], "kw": {k: P.classify(v) for k, v in form["kw"].items()}}
    case = {"kind": "wrapper", "form": {"name": form["name"], "args": enc(form["args"]), "kw": enc(form["kw"]), "tr": form.get("tr"), "prop": form.get("prop", False)}}
    with warnings.catch_warnings():
        warnings.simplefilter("ignore")
        try:
            y0 = _call_form(form, NP())
        except Exception:
            return _nj(res, "numpy_rejects_config")
        h0 = vhash(form["args"])
        compared = 0
        try:
            yp = _call_form(form, anp)
            if find_boxes(yp):
                return _viol(res, sig, "tracer_leak", case, "plain call")
            if not same_value(yp, y0):
                return _viol(res, dict(sig, depth=0), "primal_mismatch", case, "autograd.numpy on plain inputs: %s ; NumPy: %s" % (describe(yp), describe(y0)))
            compared += 1
        except Exception as e:
            _cnt(res, "narrower_signature_plain")
            res["sets"].setdefault("narrower", set()).add("%s plain %s: %s" % (form["name"], type(e).__name__, str(e)[:60]))
        paths = _float_leaf_paths(form["args"])
        if form["name"].startswith("method:"):
            paths = [p for p in paths if p == (0,)]  # only the object itself: plain-ndarray methods do not dispatch
        elif form["name"] != "array":
            # nested plain lists holding tracers are opaque to autograd (documented) except for array()
            paths = [p for p in paths if len(p) <= 2]
        for path in paths[:3]:
            x0 = P._get_path(form["args"], path)
            for mode in ("rev", "fwd"):
                try:
                    if common.is_float_valued(y0):
                        fn = lambda x: _call_form(form, anp, (path, x))
                    else:
                        # integer / boolean / metadata results: evaluate inside a traced function and
                        # hand the (untraced) value out through a side channel
                        cap = []

                        def fn(x):
                            from autograd.tracer import getval

                            r = _call_form(form, anp, (path, x))
                            cap.append(common.tree_map(getval, r) if isinstance(r, (tuple, list)) else getval(r))
                            return anp.sum(x) * 0.0 + 1.0

                    if mode == "rev":
                        yt = make_vjp(fn, x0)[1]
                    else:
                        yt = make_jvp(fn, x0)(common.rand_like(rng, x0))[0]
                    if not common.is_float_valued(y0):
                        yt = cap[0]
                except Exception as e:
                    _cnt(res, "narrower_signature_traced")
                    res["sets"].setdefault("narrower", set()).add("%s traced %s: %s" % (form["name"], type(e).__name__, str(e)[:60]))
                    continue
                if find_boxes(yt):
                    return _viol(res, dict(sig, mode=mode), "tracer_leak", case, "value returned from traced call, leaf %s" % (path,))
                if not same_value(yt, y0):
                    return _viol(res, dict(sig, depth=1, mode=mode), "primal_mismatch", case, "traced (leaf %s): %s ; NumPy: %s" % (path, describe(yt), describe(y0)))
                compared += 1
        if vhash(form["args"]) != h0:
            return _viol(res, sig, "input_modified", case, "")
    if compared == 0:
        return _nj(res, "raised")
    _cnt(res, "wrapper_comparisons", compared)
    _ok(res, sig)
    if idx % 60 == 0:
        res["samples"].append({"fn": form["name"], "args": common.brief(form["args"], 200), "kw": common.brief(form["kw"], 80), "value": describe(y0)[:160]})


# ================================================================ C06 (c): programs at depth 1-3; (d) type queries


def c06_program_case(res, rng, i):
    import autograd.numpy as anp
    from autograd.core import make_jvp, make_vjp
    from .graph import RAW_USER, user_prims

    U = user_prims()
    prog = programs.gen_program(rng, n_ops=int(rng.choice([4, 8, 14])), shape=[(3,), (2, 2)][i % 2], p_dead=0.1, p_multi=0.3)
    x = rng.uniform(0.3, 1.4, size=tuple(prog["shape"])) * rng.choice([-1.0, 1.0], size=tuple(prog["shape"]))
    st = programs.structure_signature(prog)
    sig = {"engine": "values", "family": "program", "ops": st["ops"], "n_ops": st["n_ops"]}
    case = {"kind": "program", "prog": programs.enc_program(prog), "x": enc(x)}
    with warnings.catch_warnings():
        warnings.simplefilter("ignore")
        y0 = programs.interpret(prog, x, onp, RAW_USER)
        if not programs.well_scaled(prog, x, RAW_USER):
            return _nj(res, "ill_scaled")
        f = lambda t: programs.interpret(prog, t, anp, U)
        h0 = vhash(x)
        try:
            y1 = make_vjp(f, x)[1]
            y1f = make_jvp(f, x)(onp.ones_like(x))[0]
            g1 = lambda t: make_vjp(f, t)[0](1.0)
            y2 = make_vjp(lambda t: anp.sum(g1(t)) + f(t), x)[1]
            y3 = make_vjp(lambda t: make_vjp(lambda s: anp.sum(g1(s)) * 0.0 + f(s), t)[1], x)[1]
            vplain = f(x)
        except Exception as e:
            return _viol(res, sig, "exception:" + type(e).__name__, case, traceback.format_exc()[-400:])
        ref2 = float(onp.sum(make_vjp(f, x)[0](1.0)) + y0)
        for (nm, v, ref) in (("plain", vplain, y0), ("depth1.rev", y1, y0), ("depth1.fwd", y1f, y0), ("depth3", y3, y0)):
            if find_boxes(v):
                return _viol(res, dict(sig, where=nm), "tracer_leak", case, nm)
            if not (onp.asarray(v).dtype == onp.asarray(ref).dtype and onp.asarray(v).shape == () and (float(v) == float(ref) or abs(float(v) - float(ref)) <= 1e-13 * (1 + abs(float(ref))))):
                return _viol(res, dict(sig, where=nm), "primal_mismatch", case, "%s: %r vs plain %r" % (nm, v, ref))
            if float(v) != float(ref):
                _cnt(res, "program_not_bitwise")
        if abs(float(y2) - ref2) > 1e-12 * (1 + abs(ref2)):
            return _viol(res, dict(sig, where="depth2"), "primal_mismatch", case, "%r vs %r" % (y2, ref2))
        if vhash(x) != h0:
            return _viol(res, sig, "input_modified", case, "")
    _ok(res, sig)


def c06_type_queries(res):
    """isinstance/type replacements on every tracer kind, at depth 1-2, both node types."""
    import autograd.builtins as ab
    import autograd.numpy as anp
    from autograd.core import make_jvp, make_vjp

    values = {
        "float": 1.5,
        "npfloat": onp.float64(0.5),
        "complex": 1.0 + 2.0j,
        "array": onp.array([1.0, 2.0]),
        "array0d": onp.array(1.5),
        "carray": onp.array([1.0 + 1j]),
        "tuple": (1.0, onp.array([1.0, 2.0])),
        "list": [1.0, 2.0],
        "dict": {"a": 1.0, "b": onp.array([2.0])},
        "nested": (1.0, [2.0, {"k": 3.0}]),
        "f32": onp.float32(1.5),
    }
    types = [float, onp.ndarray, tuple, list, dict, complex, int, onp.float64, (float, onp.ndarray), (tuple, list), onp.generic, object]
    for name, val in values.items():
        for mode in ("rev", "fwd", "rev.rev", "fwd.rev"):
            res["evaluations"] += 1
            sig = {"engine": "values", "family": "typequery", "value": name, "mode": mode}
            case = {"kind": "typequery", "value": name, "mode": mode}
            seen = []

            def body(x):
                from autograd.tracer import isbox

                assert isbox(x)
                for T in types:
                    seen.append((repr(T), bool(ab.isinstance(x, T)), isinstance(val, T)))
                seen.append(("type", ab.type(x), type(val)))
                # autograd's own tuple/list/dict classes answer through their metaclasses, with Python's
                # builtin isinstance as well as with autograd's
                import builtins as _b

                for T in (ab.tuple, ab.list, ab.dict):
                    seen.append(("builtin isinstance " + T.__name__, bool(_b.isinstance(x, T)), _b.isinstance(val, T)))
                    seen.append(("ag isinstance ag." + T.__name__, bool(ab.isinstance(x, T)), _b.isinstance(val, T)))
                return x

            try:
                with warnings.catch_warnings():
                    warnings.simplefilter("ignore")
                    if mode == "rev":
                        make_vjp(body, val)
                    elif mode == "fwd":
                        make_jvp(body, val)(common.rand_like(onp.random.default_rng(0), val))
                    elif mode == "rev.rev":
                        make_vjp(lambda y: make_vjp(body, y)[1], val)
                    else:
                        make_jvp(lambda y: make_vjp(body, y)[1], val)(common.rand_like(onp.random.default_rng(0), val))
            except Exception as e:
                _nj(res, "raised:" + type(e).__name__)
                continue
            bad = [s for s in seen if s[1] != s[2]]
            if bad:
                _viol(res, sig, "type_query_differs", case, "autograd.builtins answers %s" % (bad[:3],))
            elif seen:
                _cnt(res, "type_queries", len(seen))
                _ok(res, sig)


def c06_after_caught_failure(res):
    """Primal values handed back by an enclosing differentiation whose function caught a failing inner
    differentiation: still the plain value, still no tracer."""
    import autograd.numpy as anp
    from autograd import grad, value_and_grad
    from autograd.core import make_jvp, make_vjp

    x = onp.array([0.4, -0.9, 1.3])

    def failing_inner(kind, t):
        if kind == "user_raise":
            return grad(lambda z: (_ for _ in ()).throw(ValueError("boom")))(1.0)
        if kind == "linalg":
            return grad(lambda z: anp.sum(anp.linalg.cholesky(anp.array([[z, 2.0], [2.0, -1.0]]))))(1.0)
        if kind == "norule":
            return grad(lambda z: anp.sum(anp.cumprod(anp.array([z, z]))))(1.0)
        if kind == "nonscalar":
            return grad(lambda z: anp.array([z, z]))(1.0)
        if kind == "fwd_raise":
            return make_jvp(lambda z: z * {}["k"], 1.0)(1.0)
        return grad(lambda z: z * t[5])(1.0)  # IndexError on the traced outer value

    for kind in ("user_raise", "linalg", "norule", "nonscalar", "fwd_raise", "outer_index"):
        for op in ("make_vjp", "make_jvp", "value_and_grad", "vjp_of_jvp", "depth2"):
            res["evaluations"] += 1
            sig = {"engine": "values", "family": "after_caught_failure", "failure": kind, "op": op}
            case = {"kind": "after_caught_failure", "failure": kind, "op": op}

            def f(t):
                try:
                    failing_inner(kind, t)
                except Exception:
                    pass
                return anp.sum(anp.sin(t) * t)

            plain = float(onp.sum(onp.sin(x) * x))
            gref = onp.cos(x) * x + onp.sin(x)
            try:
                with warnings.catch_warnings():
                    warnings.simplefilter("ignore")
                    if op == "make_vjp":
                        vj, val = make_vjp(f, x)
                        der = vj(1.0)
                    elif op == "make_jvp":
                        val, t_ = make_jvp(f, x)(onp.ones(3))
                        der = None if abs(float(t_) - float(onp.sum(gref))) < 1e-12 else "bad"
                    elif op == "value_and_grad":
                        val, der = value_and_grad(f)(x)
                    elif op == "vjp_of_jvp":
                        vj, val = make_vjp(lambda t: make_jvp(f, t)(onp.ones(3))[0], x)
                        der = vj(1.0)
                    else:
                        val = make_vjp(lambda t: make_vjp(f, t)[1], x)[1]
                        der = grad(lambda t: grad(f)(t)[0] + f(t))(x) * 0 + gref
            except Exception as e:
                _viol(res, sig, "exception:" + type(e).__name__, case, traceback.format_exc()[-300:])
                continue
            if find_boxes(val) or find_boxes(der):
                _viol(res, sig, "tracer_leak", case, "value handed back after a caught inner failure is a tracer: %r" % (val,))
                continue
            if float(val) != plain or (der is not None and (isinstance(der, str) or not onp.allclose(der, gref, rtol=1e-13, atol=1e-13))):
                _viol(res, sig, "primal_mismatch", case, "value %r (plain %r), derivative %r (expected %r)" % (val, plain, der, gref))
                continue
            _ok(res, sig)


def c06_recorded_graph(res):
    """Functions wrapped with autograd.misc.tracers.const_graph (the graph recorded at the first call is replayed
    on later ones): every call - the recording one, replays on other inputs, replays under reverse / forward
    differentiation at depth 1-2 - hands back exactly what plain NumPy returns for that input. The primitives are
    called with keyword options, positional options, several arguments and arguments bound at wrap time."""
    import autograd.numpy as anp
    from autograd import value_and_grad
    from autograd.core import make_jvp, make_vjp
    from autograd.misc.tracers import const_graph

    W = onp.arange(1.0, 13.0).reshape(3, 4) / 7.0
    T = {
        "sum_axis0": lambda xp: (lambda x: xp.sum(xp.sin(x), axis=0)),
        "sum_axis1_keepdims": lambda xp: (lambda x: xp.sum(x * x, axis=1, keepdims=True)),
        "mean_axis_neg": lambda xp: (lambda x: xp.mean(x, axis=-1)),
        "std_ddof": lambda xp: (lambda x: xp.std(x, axis=0, ddof=1)),
        "cumsum_axis": lambda xp: (lambda x: xp.cumsum(x, axis=1)),
        "concatenate_axis": lambda xp: (lambda x: xp.concatenate((x, 2.0 * x), axis=1)),
        "transpose_axes": lambda xp: (lambda x: xp.transpose(xp.exp(x), axes=(1, 0))),
        "reshape_order": lambda xp: (lambda x: xp.reshape(x * 1.5, (x.size,), order="F")),
        "method_kw": lambda xp: (lambda x: (x * 2.0).sum(axis=0)),
        "sort_row_kind": lambda xp: (lambda x: xp.sort(x[1] * 2.0, kind="stable")),
        "positional_only": lambda xp: (lambda x: xp.sum(xp.tanh(x), 0)),
        "tensordot_axes": lambda xp: (lambda x: xp.tensordot(x, W.T, axes=([1], [0]))),
        "max_keepdims": lambda xp: (lambda x: xp.max(x, axis=1, keepdims=True) - x),
        "swapaxes_clip": lambda xp: (lambda x: xp.clip(xp.swapaxes(x, 0, 1), a_min=-0.5, a_max=0.7)),
        "scalar_out": lambda xp: (lambda x: xp.sum(xp.prod(x, axis=1))),
    }
    rng = onp.random.Generator(onp.random.PCG64([2024, 6]))
    xs = [rng.uniform(0.2, 1.3, size=(3, 4)) * rng.choice([-1.0, 1.0], size=(3, 4)) for _ in range(5)]
    for name, mk in T.items():
        for first in ("plain", "make_vjp", "make_jvp"):
            res["evaluations"] += 1
            sig = {"engine": "values", "family": "recorded_graph", "fn": name, "first_call": first}
            case = {"kind": "recorded_graph", "fn": name, "first_call": first}
            fnp, fag = mk(onp), mk(anp)
            try:
                with warnings.catch_warnings():
                    warnings.simplefilter("ignore")
                    cg = const_graph(fag)
                    got = []
                    if first == "plain":
                        got.append(("record.plain", cg(xs[0]), fnp(xs[0])))
                    elif first == "make_vjp":
                        got.append(("record.make_vjp", make_vjp(cg, xs[0])[1], fnp(xs[0])))
                    else:
                        got.append(("record.make_jvp", make_jvp(cg, xs[0])(onp.ones((3, 4)))[0], fnp(xs[0])))
                    got.append(("replay.plain", cg(xs[1]), fnp(xs[1])))
                    got.append(("replay.make_vjp", make_vjp(cg, xs[2])[1], fnp(xs[2])))
                    got.append(("replay.make_jvp", make_jvp(cg, xs[3])(onp.ones((3, 4)))[0], fnp(xs[3])))
                    got.append(("replay.value_and_grad", value_and_grad(lambda t: anp.sum(cg(t)))(xs[4])[0], onp.sum(fnp(xs[4]))))
                    got.append(("replay.depth2", make_vjp(lambda t: make_vjp(cg, t)[1], xs[1])[1], fnp(xs[1])))
                    got.append(("replay.plain_again", cg(xs[0]), fnp(xs[0])))
            except Exception as e:
                _viol(res, sig, "exception:" + type(e).__name__, case, traceback.format_exc()[-400:])
                continue
            bad = None
            for (nm, v, ref) in got:
                if find_boxes(v):
                    bad = ("tracer_leak", nm, v, ref)
                    break
                if not same_value(v, ref, ulps=2 if nm == "replay.value_and_grad" else 0):
                    bad = ("primal_mismatch", nm, v, ref)
                    break
            if bad:
                _viol(res, dict(sig, where=bad[1]), bad[0], case, "%s: %s vs NumPy %s" % (bad[1], describe(bad[2]), describe(bad[3])))
            else:
                _ok(res, sig)
    # several arguments, and arguments bound at wrap time (const_graph(fun, *bound))
    for name in ("two_args", "bound_first", "bound_kw"):
        res["evaluations"] += 1
        sig = {"engine": "values", "family": "recorded_graph", "fn": name, "first_call": "plain"}
        case = {"kind": "recorded_graph", "fn": name, "first_call": "plain"}
        f2 = lambda xp: (lambda a, b, scale=1.0: xp.sum(a * xp.cos(b), axis=0) * scale)
        try:
            if name == "two_args":
                cg = const_graph(f2(anp))
                pairs = [(cg(xs[0], xs[1]), f2(onp)(xs[0], xs[1])), (cg(xs[2], xs[3]), f2(onp)(xs[2], xs[3])), (make_vjp(lambda t: cg(t, xs[4]), xs[1])[1], f2(onp)(xs[1], xs[4]))]
            elif name == "bound_first":
                cg = const_graph(f2(anp), xs[0])
                pairs = [(cg(xs[1]), f2(onp)(xs[0], xs[1])), (cg(xs[2]), f2(onp)(xs[0], xs[2])), (make_jvp(cg, xs[3])(onp.ones((3, 4)))[0], f2(onp)(xs[0], xs[3]))]
            else:
                cg = const_graph(f2(anp), scale=2.5)
                pairs = [(cg(xs[1], xs[2]), f2(onp)(xs[1], xs[2], scale=2.5)), (cg(xs[3], xs[4]), f2(onp)(xs[3], xs[4], scale=2.5))]
        except Exception as e:
            _viol(res, sig, "exception:" + type(e).__name__, case, traceback.format_exc()[-400:])
            continue
        for k_, (v, ref) in enumerate(pairs):
            if find_boxes(v) or not same_value(v, ref):
                _viol(res, dict(sig, where="call%d" % k_), "primal_mismatch", case, "call %d: %s vs NumPy %s" % (k_, describe(v), describe(ref)))
                break
        else:
            _ok(res, sig)


def c06_buffers_and_optimizers(res):
    """(a) Output buffers under NESTED forward / reverse differentiation (depth 1-3, keyword and positional
    spelling): the value handed back at every level is NumPy's and the caller's buffer holds the primal afterwards.
    (b) The bundled optimizers (sgd, rmsprop, adam) leave the start point they were given bit-for-bit unchanged and
    return a result that shares no memory with it - for a bare ndarray as well as for list / dict / tuple trees."""
    import autograd.numpy as anp
    from autograd import grad
    from autograd.core import make_jvp, make_vjp
    from autograd.misc.optimizers import adam, rmsprop, sgd

    x = onp.array([0.3, -1.2, 0.8])
    one = onp.ones(3)
    forms = {
        "negative_positional": (lambda t, b: anp.negative(t, b), lambda t: -t),
        "negative_keyword": (lambda t, b: anp.negative(t, out=b), lambda t: -t),
        "multiply_positional": (lambda t, b: anp.multiply(t, 2.5, b), lambda t: 2.5 * t),
        "multiply_keyword": (lambda t, b: anp.multiply(t, -0.5, out=b), lambda t: -0.5 * t),
        "cumsum_positional": (lambda t, b: anp.cumsum(t, None, None, b), lambda t: onp.cumsum(t)),
    }
    for name, (f, ref) in forms.items():
        for depth in (1, 2, 3):
            res["evaluations"] += 1
            sig = {"engine": "values", "family": "out_buffer_nested", "fn": name, "depth": depth}
            case = {"kind": "buffers_optimizers", "fn": name, "depth": depth}
            buf = onp.zeros(3)
            try:
                with warnings.catch_warnings():
                    warnings.simplefilter("ignore")
                    g = lambda t: f(t, buf)
                    if depth == 1:
                        val, tan = make_jvp(g, x)(one)
                    elif depth == 2:
                        val, tan = make_jvp(lambda t: make_jvp(g, t)(one)[0], x)(one)
                    else:
                        val, tan = make_jvp(lambda t: make_jvp(lambda u: make_jvp(g, u)(one)[0], t)(one)[0], x)(one)
            except Exception as e:
                _viol(res, sig, "exception:" + type(e).__name__, case, traceback.format_exc()[-300:])
                continue
            want = ref(x)
            if find_boxes(val) or not same_value(onp.asarray(val), want) or not same_value(buf, want) or not onp.allclose(tan, ref(one) - ref(onp.zeros(3)), atol=1e-14):
                _viol(res, sig, "primal_mismatch", case, "depth-%d forward mode through %s: value %s, buffer %s, NumPy %s, tangent %s" % (depth, name, describe(val), describe(buf), describe(want), describe(tan)))
            else:
                _ok(res, sig)
    trees = {"ndarray": (lambda: onp.array([0.5, -1.5, 2.0]), lambda p: anp.sum(p * p)), "ndarray_2d_F": (lambda: onp.asfortranarray(onp.array([[0.5, -1.5], [2.0, 1.0]])), lambda p: anp.sum(p * p)),
             "list": (lambda: [onp.array([0.5, -1.5]), onp.array(2.0)], lambda p: anp.sum(p[0] * p[0]) + p[1] * p[1]), "dict": (lambda: {"w": onp.array([0.5, -1.5]), "b": onp.array([2.0])}, lambda p: anp.sum(p["w"] ** 2) + anp.sum(p["b"] ** 2)),
             "tuple_scalars": (lambda: (0.5, -1.5), lambda p: p[0] * p[0] + p[1] * p[1])}
    for oname, opt in (("sgd", sgd), ("rmsprop", rmsprop), ("adam", adam)):
        for tname, (mk, loss) in trees.items():
            res["evaluations"] += 1
            sig = {"engine": "values", "family": "optimizer_start_point", "optimizer": oname, "tree": tname}
            case = {"kind": "buffers_optimizers", "optimizer": oname, "tree": tname}
            x0 = mk()
            h0 = vhash(x0)
            try:
                with warnings.catch_warnings():
                    warnings.simplefilter("ignore")
                    out = opt(grad(lambda p, i: loss(p)), x0, num_iters=3, step_size=0.01)
            except Exception as e:
                _viol(res, sig, "exception:" + type(e).__name__, case, traceback.format_exc()[-300:])
                continue
            shared = any(isinstance(a, onp.ndarray) and isinstance(b, onp.ndarray) and a.size and onp.shares_memory(a, b) for a in common.leaves(out) for b in common.leaves(x0))
            if vhash(x0) != h0 or shared:
                _viol(res, sig, "input_modified" if vhash(x0) != h0 else "result_aliases_input", case, "%s on a %s start point: start point now %s, result shares memory with it: %s" % (oname, tname, describe(x0), shared))
            elif not float(loss(out)) < float(loss(x0)):
                _viol(res, sig, "primal_mismatch", case, "%s did not decrease the loss" % oname)
            else:
                _ok(res, sig)


# ================================================================ C14


def c14_independent(res, rng):
    import autograd.numpy as anp
    from autograd import deriv, elementwise_grad, grad, hessian, hessian_vector_product, jacobian, make_jvp, make_vjp, tensor_jacobian_product, value_and_grad

    args = {
        "scalar": 1.3,
        "npscalar": onp.float64(0.7),
        "array1": onp.array([0.5, -1.2, 2.0]),
        "array2": rng.standard_normal((2, 3)),
        "array0": onp.array(0.4),
        "carray": onp.array([1.0 + 2.0j, 0.5 - 1.0j]),
        "tuple": (1.0, onp.array([1.0, 2.0])),
        "list": [onp.array([1.0, 2.0]), 3.0],
        "dict": {"a": 1.0, "b": onp.array([[2.0, 3.0]])},
        "nested": (1.0, [onp.array([2.0]), {"k": onp.array([3.0, 4.0])}]),
        "empty_tuple_in": (onp.array([1.0]), ()),
    }
    other = onp.array([0.3, 0.6])

    cur = {"arg": None}
    FIRST = {"tuple": lambda x: x[0], "list": lambda x: x[0], "dict": lambda x: x["a"], "nested": lambda x: x[0], "empty_tuple_in": lambda x: x[0]}

    def first_leaf(x):
        return FIRST.get(cur["arg"], lambda t: t)(x)

    outputs = {
        "const_float": lambda x: 3.0,
        "const_array": lambda x: onp.array([1.0, 2.0]),
        "const_npfloat": lambda x: onp.float64(2.5),
        "other_arg": lambda x: anp.sum(anp.sin(other)),
        "other_arg_vec": lambda x: anp.sin(other),
        "floor": lambda x: anp.sum(anp.floor(anp.real(first_leaf(x)) * 3.0)) * 1.0,
        "sign": lambda x: anp.sum(anp.sign(anp.real(first_leaf(x)))) * 2.0,
        "compare": lambda x: anp.sum((anp.real(first_leaf(x)) > 0.6) * 1.0),
        "argmax": lambda x: anp.argmax(anp.real(anp.atleast_1d(first_leaf(x)))) * 1.0,
        "shape": lambda x: float(anp.ndim(first_leaf(x))) + 1.0,
        "round": lambda x: anp.sum(anp.round(anp.real(first_leaf(x)))) + 0.5,
        "zeros_like": lambda x: anp.sum(anp.zeros_like(anp.real(first_leaf(x)))) + 1.0,
        "const_tuple": lambda x: (1.0, onp.array([1.0, 2.0])),
        # the traced value only enters a primitive through an argument registered as non-differentiable
        "where_traced_cond": lambda x: anp.where(anp.sum(anp.real(first_leaf(x))) + 10.0, onp.arange(6.0).reshape(2, 3), onp.ones((2, 3))),
        "where_traced_cond_vec": lambda x: anp.where(anp.ravel(anp.real(first_leaf(x)))[:1] + 10.0, onp.arange(6.0).reshape(2, 3), onp.ones((2, 3))),
    }
    scalar_out = {"const_float", "const_npfloat", "other_arg", "floor", "sign", "compare", "argmax", "shape", "round", "zeros_like"}

    def is_zero_like(result, like):
        d = sdesc_diff(sdesc(like), sdesc(result))
        if d == "wrong_dtype":
            # only default precision is fixed
            d = None
        if d:
            return d
        for l in common.leaves(result):
            a = onp.asarray(l)
            if a.dtype.kind not in "fc":
                return "nonfloat_zero"
            if onp.any(a != 0) or onp.any(onp.isnan(a)):
                return "nonzero"
        return None

    for aname, x in args.items():
        cur["arg"] = aname
        container = common.is_container(x)
        for oname, f in outputs.items():
            if aname == "carray" and oname in ("argmax",):
                continue
            y_plain = f(x)
            ops = {}
            if oname in scalar_out:
                ops["grad"] = (lambda: grad(f)(x), x)
                ops["value_and_grad"] = (lambda: value_and_grad(f)(x)[1], x)
            if oname != "const_tuple":
                ops["elementwise_grad"] = (lambda: elementwise_grad(f)(x), x)
            ops["make_vjp"] = (lambda: (lambda vj_y: vj_y[0](common.rand_like(rng, y_plain)))(make_vjp(f)(x)), x)
            ops["make_jvp"] = (lambda: make_jvp(f)(x)(common.rand_like(rng, x))[1], y_plain)
            if not container and aname not in ("carray",):
                ops["deriv"] = (lambda: deriv(f)(x), y_plain)
            if not container and oname != "const_tuple":
                ops["jacobian"] = (lambda: jacobian(f)(x), onp.zeros(onp.shape(y_plain) + onp.shape(x), dtype=onp.asarray(x).dtype))
                if oname in scalar_out and aname != "carray":
                    ops["hessian"] = (lambda: hessian(f)(x), onp.zeros(onp.shape(x) * 2))
                    ops["hessian_vector_product"] = (lambda: hessian_vector_product(f)(x, onp.ones(onp.shape(x))), x)
                if aname != "carray":
                    ops["tensor_jacobian_product"] = (lambda: tensor_jacobian_product(f)(x, onp.ones(onp.shape(y_plain))), x)
            for opname, (thunk, like) in ops.items():
                res["evaluations"] += 1
                sig = {"engine": "values", "family": "independent", "arg": aname, "out": oname, "op": opname}
                case = {"kind": "independent", "arg": aname, "out": oname, "op": opname}
                try:
                    with warnings.catch_warnings():
                        warnings.simplefilter("ignore")
                        r = thunk()
                except Exception as e:
                    _viol(res, sig, "exception:" + type(e).__name__, case, "%s" % traceback.format_exc()[-300:])
                    continue
                if r is None:
                    _viol(res, sig, "none_result", case, "")
                    continue
                if find_boxes(r):
                    _viol(res, sig, "tracer_leak", case, "")
                    continue
                d = is_zero_like(r, like)
                if d:
                    _viol(res, sig, d, case, "result %s expected zero like %s" % (describe(r), sdesc(like)))
                    continue
                # the same call in a process that promotes NumPy's / Python's own warning categories to errors
                # (RuntimeWarning, DeprecationWarning, FutureWarning, ...) but leaves plain user-level notices
                # alone: autograd's "independent of input" notice is such a notice, not a numerical failure
                try:
                    with warnings.catch_warnings():
                        warnings.simplefilter("error")
                        warnings.filterwarnings("ignore", category=UserWarning)
                        thunk()
                except Warning as w_:
                    if "independent" in str(w_):
                        _viol(res, sig, "independence_notice_raises", case, "with every warning category except UserWarning promoted to an error the operator raised %s: %s" % (type(w_).__name__, w_))
                        continue
                except Exception:
                    pass
                _ok(res, sig)
                if res["evaluations"] % 90 == 1:
                    res["samples"].append({"arg": aname, "output": oname, "operator": opname, "result": describe(r)[:120]})
            # history: one pull-back closure of an argument-independent function called repeatedly, the caller
            # accumulating into each gradient it received (it owns it) before asking again
            res["evaluations"] += 1
            sig = {"engine": "values", "family": "independent_repeat", "arg": aname, "out": oname}
            case = {"kind": "independent_repeat", "arg": aname, "out": oname}
            try:
                with warnings.catch_warnings():
                    warnings.simplefilter("ignore")
                    vj, _y = make_vjp(f)(x)
                    bad = None
                    for k in range(3):
                        r = vj(common.rand_like(rng, y_plain))
                        d = is_zero_like(r, x)
                        if d:
                            bad = "call %d: %s: %s" % (k, d, describe(r)[:200])
                            break
                        for l in common.leaves(r):
                            if isinstance(l, onp.ndarray) and l.flags.writeable and l.size:
                                l += 1.0 + k
            except Exception as e:
                _viol(res, sig, "exception:" + type(e).__name__, case, "%s" % traceback.format_exc()[-300:])
                continue
            if bad:
                _viol(res, sig, "nonzero_after_caller_accumulated", case, bad)
            else:
                _ok(res, sig)


def _nograd_templates(name, rng):
    x = onp.array([0.37, -1.21, 2.43, 0.81])
    y = onp.array([1.13, -0.52, 2.9, -0.33])
    m = onp.array([[0.37, -1.21], [2.43, 0.81]])
    base = [("u", (x,), {}), ("m", (m,), {}), ("b", (x, y), {}), ("k", (x, 2), {}), ("ks", (onp.sort(x), 0.5), {}), ("s", (0.37,), {}), ("bs", (x, 0.9), {})]
    # options given by keyword must reach the NumPy function under tracing as well
    kws = [{"axis": 0}, {"axis": -1}, {"decimals": 1}, {"atol": 0.5}, {"rtol": 0.6}, {"side": "right"}, {"dtype": onp.float32}, {"keepdims": True}, {"axis": 1, "keepdims": True}, {"equal_nan": True}, {"kind": "stable"}, {"kth": 1}]
    m3 = onp.array([[0.37, -1.21, 2.43], [0.81, 0.12, -0.55]])
    ex = []
    for kw in kws:
        ex.append(("u+" + ",".join(sorted(kw)), (x * 3.7,), kw))
        ex.append(("m+" + ",".join(sorted(kw)), (m3 * 3.7,), kw))
        ex.append(("b+" + ",".join(sorted(kw)), (x, x + 0.3), kw))
        ex.append(("ks+" + ",".join(sorted(kw)), (onp.sort(x), x[1] * 1.01 + 0.013), kw))
    # complex arguments: a member of the list must be locally constant there too
    xc = x + 1j * y
    ex += [("uc", (xc,), {}), ("mc", (m + 0.5j * m.T,), {}), ("bc", (xc, y + 0.3j * x), {}), ("sc", (0.37 + 0.2j,), {}), ("kc", (xc, 1), {})]
    return base + ex


PINNED_NOGRAD = ['all', 'allclose', 'any', 'argmax', 'argmin', 'argpartition', 'argsort', 'argwhere', 'around', 'array_equal', 'array_equiv', 'ceil', 'count_nonzero', 'equal', 'fix', 'flatnonzero', 'floor', 'floor_divide', 'greater', 'greater_equal', 'isclose', 'iscomplex', 'iscomplexobj', 'isfinite', 'isinf', 'isnan', 'isneginf', 'isposinf', 'isreal', 'isscalar', 'less', 'less_equal', 'logical_and', 'logical_not', 'logical_or', 'logical_xor', 'ndim', 'nonzero', 'not_equal', 'ones_like', 'result_type', 'rint', 'round', 'searchsorted', 'shape', 'sign', 'size', 'trunc', 'zeros_like']


def c14_nograd(res, rng):
    import autograd.numpy as anp
    from autograd.core import make_jvp, make_vjp
    from autograd.numpy.numpy_vjps import nograd_functions
    from autograd.tracer import isbox

    res["info"]["nograd_functions"] = len(nograd_functions)
    # the monitored set is the non-differentiable list of the pinned tree by NAME, plus whatever the live list adds:
    # a function that silently leaves the live list (or one of the two registration loops) is still examined
    live = {getattr(fn, "__name__", repr(fn)): fn for fn in nograd_functions}
    fns = dict(live)
    for nm in PINNED_NOGRAD:
        if nm not in fns and hasattr(anp, nm):
            fns[nm] = getattr(anp, nm)
    res["info"]["nograd_missing_from_live_list"] = sorted(set(PINNED_NOGRAD) - set(live))
    for name, fn in fns.items():
        raw = getattr(onp, name, None)
        if raw is None:
            res["sets"].setdefault("nograd_without_numpy_name", set()).add(name)
            continue
        used = 0
        for (tname, args, kw) in _nograd_templates(name, rng):
            try:
                with warnings.catch_warnings():
                    warnings.simplefilter("ignore")
                    ref = raw(*args, **kw)
            except Exception:
                continue
            used += 1
            modes_ = ["rev", "fwd", "rev.rev", "fwd.rev"]
            if len(args) >= 2 and isinstance(args[1], (float, onp.ndarray)) and onp.asarray(args[1]).dtype.kind == "f":
                # the first argument is the inner level's variable, the second one a value traced by the ENCLOSING level
                modes_ += ["rev.rev:outer_arg", "fwd.rev:outer_arg", "rev.fwd:outer_arg"]
            for mode in modes_:
                res["evaluations"] += 1
                sig = {"engine": "values", "family": "nograd", "fn": name, "template": tname, "mode": mode}
                case = {"kind": "nograd", "fn": name, "template": tname, "mode": mode}
                seen = {}

                def body(x):
                    a = (x,) + tuple(args[1:])
                    r = fn(*a, **kw)
                    seen["r"] = r
                    seen["isbox"] = bool(find_boxes(r)) or isbox(r)
                    return anp.sum(x) * 0.0 + 1.0

                def outer_body(t):
                    def body2(x):
                        r = fn(x, args[1] + 0.0 * t, *args[2:], **kw)
                        seen["r"] = r
                        seen["isbox"] = bool(find_boxes(r)) or isbox(r)
                        return anp.sum(x) * 0.0 + 1.0 + 0.0 * t

                    if mode.startswith("rev.fwd"):
                        return make_jvp(body2, args[0])(common.rand_like(rng, args[0]))[1]
                    return make_vjp(body2, args[0])[1]

                try:
                    with warnings.catch_warnings():
                        warnings.simplefilter("ignore")
                        if mode.endswith(":outer_arg"):
                            if mode.startswith("fwd."):
                                make_jvp(outer_body, 0.3)(1.0)
                            else:
                                make_vjp(outer_body, 0.3)
                        elif mode == "rev":
                            make_vjp(body, args[0])
                        elif mode == "fwd":
                            make_jvp(body, args[0])(common.rand_like(rng, args[0]))
                        elif mode == "rev.rev":
                            make_vjp(lambda t: make_vjp(body, t)[1], args[0])
                        else:
                            make_jvp(lambda t: make_vjp(body, t)[1], args[0])(common.rand_like(rng, args[0]))
                except Exception as e:
                    _viol(res, sig, "exception:" + type(e).__name__, case, traceback.format_exc()[-300:])
                    continue
                if seen.get("isbox"):
                    _viol(res, sig, "tracer_returned", case, "non-differentiable function returned a tracer")
                    continue
                if "r" not in seen or not same_value(seen["r"], ref):
                    _viol(res, sig, "primal_mismatch", case, "%s vs NumPy %s" % (describe(seen.get("r")), describe(ref)))
                    continue
                _ok(res, sig)
            # local constancy on NumPy (is the function really piecewise constant at a generic point?)
            res["evaluations"] += 1
            sig = {"engine": "values", "family": "nograd_constancy", "fn": name, "template": tname}
            case = {"kind": "nograd_constancy", "fn": name, "template": tname}
            varies = False
            for h in (1e-3, 1e-6):
                for s in (+1, -1):
                    v = onp.resize(onp.array([0.7, -0.4, 0.9, 0.5, -0.6, 0.8]), onp.shape(args[0]))
                    pert = args[0] + s * h * v
                    try:
                        with warnings.catch_warnings():
                            warnings.simplefilter("ignore")
                            r2 = raw(pert, *args[1:], **kw)
                    except Exception:
                        continue
                    if not same_value(r2, ref):
                        varies = True
            if varies and common.is_float_valued(ref):
                _viol(res, sig, "not_locally_constant", case, "member of nograd_functions varies with its argument on NumPy")
            else:
                _ok(res, sig)
        if used == 0:
            res["sets"].setdefault("nograd_no_template", set()).add(name)
        else:
            res["sets"].setdefault("nograd_checked", set()).add(name)


def c14_compositions(res, rng):
    import autograd.numpy as anp
    from autograd import grad
    from autograd.core import make_jvp

    x = onp.array([0.37, -1.21, 2.43, 0.81, -2.6])
    qs = {
        "floor": anp.floor, "ceil": anp.ceil, "round": anp.round, "rint": anp.rint, "trunc": anp.trunc, "fix": anp.fix, "sign": anp.sign, "around": anp.around,
        "gt": lambda t: t > 0.5, "ge": lambda t: t >= 0.5, "lt": lambda t: t < 0.5, "le": lambda t: t <= 0.5, "eq": lambda t: t == 0.81, "ne": lambda t: t != 0.81,
        "isfinite": anp.isfinite, "logical_not": lambda t: anp.logical_not(t > 0), "zeros_like": anp.zeros_like, "ones_like": anp.ones_like,
        "floor_divide": lambda t: anp.floor_divide(t, 0.7), "argmax": lambda t: anp.argmax(t) * onp.ones(5), "count_nonzero": lambda t: anp.count_nonzero(t > 0) * onp.ones(5),
        "op_gt": lambda t: (t > 0.5) * 1.0, "size": lambda t: anp.size(t) * onp.ones(5), "isclose": lambda t: anp.isclose(t, 0.37),
    }
    # conversions to an integer / boolean type are integer-valued and piecewise constant as well
    # (reverse mode only: the tree defines no forward rule for astype, which fails loudly)
    REV_ONLY = {"astype_int", "astype_bool", "astype_int32_kw"}
    qs["astype_int"] = lambda t: t.astype(int)
    qs["astype_bool"] = lambda t: t.astype(bool)
    qs["astype_int32_kw"] = lambda t: t.astype(dtype=onp.int32)
    # a traced value compared with ITSELF (the not-NaN mask idiom), at a point that has NaN entries
    x_nan = onp.array([0.37, onp.nan, 2.43, onp.nan, -2.6])
    SELF = {"eq_self": lambda t: t == t, "ne_self": lambda t: t != t, "ge_self": lambda t: t >= t, "lt_self": lambda t: t < t, "equal_fn_self": lambda t: anp.equal(t, t), "isnan_not": lambda t: anp.logical_not(anp.isnan(t))}
    for name, q in SELF.items():
        for mode in ("rev", "fwd"):
            res["evaluations"] += 1
            sig = {"engine": "values", "family": "composition", "q": name, "mode": mode}
            case = {"kind": "composition", "q": name, "mode": mode}
            try:
                with warnings.catch_warnings():
                    warnings.simplefilter("ignore")
                    ref = q(x_nan)
                    cap = []
                    body = lambda t: (cap.append(q(t)), anp.sum(anp.where(q(t), t, 0.0) * 1.0))[1]
                    if mode == "rev":
                        got = grad(body)(x_nan)
                    else:
                        got = onp.array([make_jvp(body, x_nan)(e)[1] for e in onp.eye(5)])
            except Exception as e:
                _viol(res, sig, "exception:" + type(e).__name__, case, traceback.format_exc()[-300:])
                continue
            if find_boxes(cap[0]) or not same_value(cap[0], ref):
                _viol(res, sig, "primal_mismatch", case, "comparison of a traced value with itself gives %s, NumPy %s" % (describe(cap[0]), describe(ref)))
                continue
            if not onp.array_equal(onp.asarray(got, dtype=float), onp.asarray(ref, dtype=float)):
                _viol(res, sig, "wrong_value", case, "d/dx sum(where(%s, x, 0)): got %s expected the mask %s" % (name, describe(got), describe(ref)))
                continue
            _ok(res, sig)
    for name, q in qs.items():
        for mode in ("rev", "fwd"):
            if mode == "fwd" and name in REV_ONLY:
                continue
            res["evaluations"] += 1
            sig = {"engine": "values", "family": "composition", "q": name, "mode": mode}
            case = {"kind": "composition", "q": name, "mode": mode}
            try:
                with warnings.catch_warnings():
                    warnings.simplefilter("ignore")
                    expected = onp.asarray(q(x), dtype=float)
                    if mode == "rev":
                        got = grad(lambda t: anp.sum(t * q(t)))(x)
                    else:
                        v = rng.standard_normal(5)
                        got = make_jvp(lambda t: t * q(t), x)(v)[1]
                        expected = expected * v
            except Exception as e:
                _viol(res, sig, "exception:" + type(e).__name__, case, traceback.format_exc()[-300:])
                continue
            if find_boxes(got) or onp.shape(got) != (5,) or not onp.allclose(got, expected, rtol=1e-14, atol=0):
                _viol(res, sig, "wrong_value", case, "d/dx x*%s(x): got %s expected %s" % (name, describe(got), describe(expected)))
                continue
            _ok(res, sig)
    # inner differentiation of a function that only depends on an *enclosing* traced variable: exact zero
    from autograd import deriv, elementwise_grad, jacobian
    from autograd.core import make_vjp as _mv

    inner_ops = {"grad": lambda f, a: grad(f)(a), "deriv": lambda f, a: deriv(f)(a), "egrad": lambda f, a: elementwise_grad(f)(a), "jacobian": lambda f, a: jacobian(f)(a), "vjp": lambda f, a: _mv(f, a)[0](1.0), "jvp": lambda f, a: make_jvp(f, a)(1.0)[1]}
    for iname, iop in inner_ops.items():
        for oname, oop in inner_ops.items():
            for bname, body in (("outer_only", lambda xo, z: anp.sin(xo) * 3.0), ("outer_through_nograd", lambda xo, z: xo * anp.floor(z * 2.0)), ("const", lambda xo, z: 4.0)):
                res["evaluations"] += 1
                sig = {"engine": "values", "family": "nested_independent", "inner": iname, "outer": oname, "body": bname}
                case = {"kind": "nested_independent", "inner": iname, "outer": oname, "body": bname}
                try:
                    with warnings.catch_warnings():
                        warnings.simplefilter("ignore")
                        # d/dx [ x * d/dz body(x, z) ] : the inner derivative is identically 0
                        got = oop(lambda xo: xo * iop(lambda z: body(xo, z), 0.7) + xo, 1.3)
                except Exception as e:
                    _viol(res, sig, "exception:" + type(e).__name__, case, traceback.format_exc()[-300:])
                    continue
                if find_boxes(got) or float(onp.asarray(got)) != 1.0:
                    _viol(res, sig, "nonzero_for_independent", case, "d/dx[x*D_z body + x] = %r, expected exactly 1.0 (inner derivative must be an exact zero)" % (got,))
                    continue
                _ok(res, sig)
    # control flow on tracers follows the plain branch
    for xv in (0.7, -0.7, 0.0, onp.float64(1e-300), onp.array(2.0)):
        for mode in ("rev", "fwd", "rev.rev"):
            res["evaluations"] += 1
            sig = {"engine": "values", "family": "control_flow", "x": repr(xv)[:20], "mode": mode}
            case = {"kind": "control_flow", "x": enc(xv), "mode": mode}
            path = []

            def body(t):
                if t > 0:
                    path.append("pos")
                    r = t * 2.0
                elif t == 0:
                    path.append("zero")
                    r = t * 3.0
                else:
                    path.append("neg")
                    r = t * -1.0
                path.append(bool(t))
                n = 0
                while t * (0.5**n) > 0.1 and n < 5:
                    n += 1
                path.append(n)
                path.append(bool(t >= 0.7) and not bool(t != t))
                return r

            from autograd.core import make_vjp

            plain = []
            path = plain
            body(xv)
            traced = []
            path = traced
            try:
                with warnings.catch_warnings():
                    warnings.simplefilter("ignore")
                    if mode == "rev":
                        make_vjp(body, xv)
                    elif mode == "fwd":
                        make_jvp(body, xv)(1.0 if not isinstance(xv, onp.ndarray) else onp.array(1.0))
                    else:
                        make_vjp(lambda s: make_vjp(body, s)[1], xv)
            except Exception as e:
                _viol(res, sig, "exception:" + type(e).__name__, case, traceback.format_exc()[-300:])
                continue
            if traced != plain:
                _viol(res, sig, "branch_differs", case, "traced path %s plain path %s" % (traced, plain))
            else:
                _ok(res, sig)


def c14_user_notrace(res):
    """A user primitive declared non-differentiable through autograd.extend.register_notrace (the mechanism behind
    floor / sign / argmax): from the declaration on it returns plain values and blocks derivative flow in the mode
    it was declared for - whether the declaration came before the first call or after the primitive had already
    been called plain / traced in reverse / traced forward with straight-through rules."""
    import autograd.numpy as anp
    from autograd import deriv, grad
    from autograd.extend import JVPNode, VJPNode, defjvp, defvjp, primitive, register_notrace
    from autograd.tracer import isbox

    xs = onp.array([1.5, -0.5, 3.25])
    for hist in ("register_first", "plain_then_register", "rev_then_register", "fwd_then_register", "both_then_register", "nested_then_register", "rev_only_declared"):
        res["evaluations"] += 1
        sig = {"engine": "values", "family": "user_notrace", "history": hist}
        case = {"kind": "user_notrace", "history": hist}
        try:
            with warnings.catch_warnings():
                warnings.simplefilter("ignore")
                q = primitive(lambda x: onp.floor(x))
                defvjp(q, lambda ans, x: lambda g: g)
                defjvp(q, lambda g, ans, x: g)
                f = lambda x: x * q(x)
                if hist == "plain_then_register":
                    q(2.5), q(xs)
                if hist in ("rev_then_register", "both_then_register", "rev_only_declared"):
                    assert grad(f)(2.5) == 4.5
                if hist in ("fwd_then_register", "both_then_register", "rev_only_declared"):
                    assert deriv(f)(2.5) == 4.5
                if hist == "nested_then_register":
                    assert grad(lambda a: grad(lambda b: f(b) * a)(2.5))(1.0) == 4.5
                register_notrace(VJPNode, q)
                if hist != "rev_only_declared":
                    register_notrace(JVPNode, q)
                seen = []

                def f2(x):
                    v = q(x)
                    seen.append(v)
                    return x * v

                g_rev = grad(f2)(2.5)
                n_rev = len(seen)
                g_fwd = deriv(f2)(2.5)
                leaked_rev = any(isbox(v) for v in seen[:n_rev])
                leaked_fwd = any(isbox(v) for v in seen[n_rev:])
                g_arr = grad(lambda x: anp.sum(x * q(x)))(xs)
                z = grad(lambda x: anp.sum(q(x)) * 1.0)(xs)
                g2 = grad(lambda a: grad(lambda b: b * q(b) * a)(2.5))(1.0)
        except Exception as e:
            _viol(res, sig, "exception:" + type(e).__name__, case, traceback.format_exc()[-400:])
            continue
        want_fwd = 4.5 if hist == "rev_only_declared" else 2.0
        bad = None
        if leaked_rev or (leaked_fwd and hist != "rev_only_declared"):
            bad = "a primitive declared non-differentiable returned a tracer"
        elif g_rev != 2.0 or g2 != 2.0:
            bad = "reverse mode: x*q(x) differentiates to %r (nested: %r), expected q(x)=2.0" % (g_rev, g2)
        elif g_fwd != want_fwd:
            bad = "forward mode: x*q(x) differentiates to %r, expected %r" % (g_fwd, want_fwd)
        elif not onp.array_equal(g_arr, onp.floor(xs)) or not (onp.array_equal(z, onp.zeros(3)) and onp.asarray(z).dtype == onp.float64):
            bad = "array argument: d/dx sum(x*q(x)) = %r, d/dx sum(q(x)) = %r" % (g_arr, z)
        if bad:
            _viol(res, sig, "declared_nograd_not_honoured", case, bad)
        else:
            _ok(res, sig)


def c14_programs(res, rng, i, seedlist=None):
    """Random dataflow programs whose float output cannot depend on the differentiated argument:
    (a) the program runs on q(x) with q piecewise constant; (b) on another argument; (c) x only feeds
    dead branches. Every operator must return an exact zero of the right structure."""
    import autograd.numpy as anp
    from autograd import elementwise_grad, grad, hessian, jacobian, make_jvp, make_vjp, value_and_grad
    from .graph import RAW_USER, user_prims

    U = user_prims()
    shape = [(3,), (2, 2)][i % 2]
    prog = programs.gen_program(rng, n_ops=int(rng.choice([3, 6, 10])), shape=shape, p_dead=0.2, p_multi=0.3, families=("unary", "binary", "alias", "sparse", "reduce", "user"))
    x = rng.uniform(0.3, 1.4, size=shape) * rng.choice([-1.0, 1.0], size=shape)
    y = rng.uniform(0.3, 1.4, size=shape)
    variant = ["floor", "sign", "compare", "round", "other_arg", "dead_only", "argsort", "where_mask"][i % 8]
    if not programs.well_scaled(prog, onp.floor(x * 3.0), RAW_USER) or not programs.well_scaled(prog, y, RAW_USER):
        return _nj(res, "ill_scaled")

    def f(t, other=y):
        if variant == "floor":
            u = anp.floor(t * 3.0)
        elif variant == "sign":
            u = anp.sign(t) * 0.7
        elif variant == "compare":
            u = (t > 0.5) * 1.0 + 0.2
        elif variant == "round":
            u = anp.round(t) + 0.3
        elif variant == "argsort":
            u = anp.reshape(anp.argsort(anp.ravel(t)), shape) * 0.3
        elif variant == "where_mask":
            u = anp.where(t > 0.0, 1.3, -0.4) + anp.zeros_like(t)
        elif variant == "other_arg":
            u = other
        else:
            _dead = anp.sin(t) * anp.exp(t)  # computed, never used
            u = other * 0.5
        return programs.interpret(prog, u, anp, U)

    st = programs.structure_signature(prog)
    sig = {"engine": "values", "family": "independent_program", "variant": variant, "ops": st["ops"]}
    case = {"kind": "independent_program", "seed_i": i, "seed": seedlist or [0, i, 101]}
    ops = {
        "grad": lambda: grad(f)(x), "value_and_grad": lambda: value_and_grad(f)(x)[1], "elementwise_grad": lambda: elementwise_grad(f)(x), "jacobian": lambda: jacobian(f)(x),
        "hessian": lambda: hessian(f)(x), "make_vjp": lambda: make_vjp(f)(x)[0](1.0), "make_jvp": lambda: make_jvp(f)(x)(onp.ones(shape))[1],
        "grad_of_grad": lambda: grad(lambda t: anp.sum(grad(f)(t)))(x), "jvp_of_grad": lambda: make_jvp(lambda t: grad(f)(t))(x)(onp.ones(shape))[1],
    }
    expect = {"grad": shape, "value_and_grad": shape, "elementwise_grad": shape, "jacobian": shape, "hessian": shape + shape, "make_vjp": shape, "make_jvp": (), "grad_of_grad": shape, "jvp_of_grad": shape}
    for name, thunk in ops.items():
        res["evaluations"] += 1
        s2 = dict(sig, op=name)
        try:
            with warnings.catch_warnings():
                warnings.simplefilter("ignore")
                r = thunk()
        except Exception as e:
            _viol(res, s2, "exception:" + type(e).__name__, case, traceback.format_exc()[-300:])
            continue
        a = onp.asarray(r)
        if r is None or find_boxes(r) or a.dtype.kind != "f" or a.shape != expect[name] or onp.any(a != 0):
            _viol(res, s2, "nonzero_for_independent", case, "%s returned %s, expected exact zeros of shape %s" % (name, describe(r), expect[name]))
            continue
        _ok(res, s2)


# ================================================================ driver


def run_shard(pid, tier, seed, idx, n):
    common.setup_repo()
    res = _new_result()
    t0 = time.time()
    if pid == "C06":
        reps = 1 if tier == "quick" else 3
        k = 0
        for rep in range(reps):
            rng = onp.random.Generator(onp.random.PCG64([seed, rep, 61]))
            cases = list(catalogue.all_cases(rng, cx=False)) + list(catalogue.all_cases(rng, cx=True))
            cases = [c for c in cases if c.get("argnum") is not None and c["form"] != "special"]
            for i, c in enumerate(cases):
                k += 1
                if k % n != idx:
                    continue
                res["evaluations"] += 1
                try:
                    c06_catalogue_case(res, c, onp.random.Generator(onp.random.PCG64([seed, rep, i])))
                except Exception:
                    _nj(res, "harness_error")
                    res["sets"].setdefault("harness_errors", set()).add(traceback.format_exc()[-400:])
            forms = wrapper_forms(rng)
            res["info"]["wrapper_forms"] = len(forms)
            for i, f in enumerate(forms):
                k += 1
                if k % n != idx:
                    continue
                res["evaluations"] += 1
                try:
                    c06_wrapper_case(res, f, rng, i)
                except Exception:
                    _nj(res, "harness_error")
                    res["sets"].setdefault("harness_errors", set()).add(traceback.format_exc()[-400:])
            nprog = 600 if tier == "quick" else 4000
            for i in range(idx, nprog, n):
                res["evaluations"] += 1
                try:
                    c06_program_case(res, onp.random.Generator(onp.random.PCG64([seed, rep, i, 3])), i)
                except Exception:
                    _nj(res, "harness_error")
                    res["sets"].setdefault("harness_errors", set()).add(traceback.format_exc()[-400:])
        if idx == 0:
            c06_type_queries(res)
        if idx == 1 % n:
            c06_after_caught_failure(res)
        if idx == 2 % n:
            c06_recorded_graph(res)
        if idx == 3 % n:
            c06_buffers_and_optimizers(res)
    else:
        rng = onp.random.Generator(onp.random.PCG64([seed, idx, 67]))
        # the C14 workload is small and deterministic: shard by family
        fams = [c14_independent, c14_nograd, c14_compositions, lambda r_, g_: c14_user_notrace(r_)]
        for j, fam in enumerate(fams):
            if j % n == idx % max(1, min(n, len(fams))) and idx < len(fams):
                fam(res, rng)
        nprog = 800 if tier == "quick" else 12000
        for i in range(idx, nprog, n):
            try:
                c14_programs(res, onp.random.Generator(onp.random.PCG64([seed, i, 101])), i, [seed, i, 101])
            except Exception:
                _nj(res, "harness_error")
                res["sets"].setdefault("harness_errors", set()).add(traceback.format_exc()[-400:])
    res["sets"] = {k: sorted(v) for k, v in res["sets"].items()}
    res["counters"]["wall_ms"] = int((time.time() - t0) * 1000)
    return res


def replay(pid, case):
    common.setup_repo()
    res = _new_result()
    rng = onp.random.Generator(onp.random.PCG64(99))
    k = case["kind"]
    res["evaluations"] = 1
    if k == "cat":
        c06_catalogue_case(res, P.decode_case(case["case"]), rng)
    elif k == "wrapper":
        f = case["form"]
        c06_wrapper_case(res, {"name": f["name"], "args": dec(f["args"]), "kw": dec(f["kw"]), "tr": f.get("tr"), "prop": f.get("prop", False)}, rng, 1)
    elif k == "program":
        # programs are regenerated from the stored descriptor
        import autograd.numpy as anp
        from autograd.core import make_vjp
        from .graph import RAW_USER, user_prims

        prog = programs.dec_program(case["prog"])
        x = dec(case["x"])
        y0 = programs.interpret(prog, x, onp, RAW_USER)
        y1 = make_vjp(lambda t: programs.interpret(prog, t, anp, user_prims()), x)[1]
        sig = {"engine": "values", "family": "program"}
        if not abs(float(y1) - float(y0)) <= 1e-13 * (1 + abs(float(y0))):
            _viol(res, sig, "primal_mismatch", case, "%r vs %r" % (y1, y0))
        else:
            _ok(res, sig)
    elif k == "after_caught_failure":
        c06_after_caught_failure(res)
        res["violations"] = [v for v in res["violations"] if v["case"] == case]
    elif k == "buffers_optimizers":
        c06_buffers_and_optimizers(res)
        res["violations"] = [v for v in res["violations"] if v["case"] == case]
    elif k == "recorded_graph":
        c06_recorded_graph(res)
        res["violations"] = [v for v in res["violations"] if v["case"] == case]
    elif k == "typequery":
        c06_type_queries(res)
        res["violations"] = [v for v in res["violations"] if v["case"].get("value") == case["value"] and v["case"].get("mode") == case["mode"]]
    elif k == "independent":
        c14_independent(res, rng)
        res["violations"] = [v for v in res["violations"] if all(v["case"].get(q) == case[q] for q in ("arg", "out", "op"))]
    elif k == "independent_repeat":
        c14_independent(res, rng)
        res["violations"] = [v for v in res["violations"] if v["case"] == case]
    elif k in ("nograd", "nograd_constancy"):
        c14_nograd(res, rng)
        res["violations"] = [v for v in res["violations"] if v["case"].get("fn") == case["fn"] and v["case"]["kind"] == k and v["case"].get("template") == case.get("template") and v["case"].get("mode") == case.get("mode")]
    elif k == "independent_program":
        c14_programs(res, onp.random.Generator(onp.random.PCG64(case.get("seed", [0, case["seed_i"], 101]))), case["seed_i"], case.get("seed"))
    elif k == "user_notrace":
        c14_user_notrace(res)
        res["violations"] = [v for v in res["violations"] if v["case"] == case]
    elif k in ("composition", "control_flow", "nested_independent"):
        c14_compositions(res, rng)
        res["violations"] = [v for v in res["violations"] if v["case"] == case]
    res["sets"] = {k: sorted(v) for k, v in res["sets"].items()}
    return res


def post(pid, tier, agg):
    out = []
    if agg["not_judged"].get("harness_error", 0) > 0.02 * max(1, agg["evaluations"]):
        out.append("harness errors on %d cases" % agg["not_judged"]["harness_error"])
    if pid == "C06":
        if agg["counters"].get("wrapper_comparisons", 0) < 200:
            out.append("wrapper forms not compared")
        if agg["counters"].get("type_queries", 0) < 100:
            out.append("type queries not evaluated")
    if pid == "C14":
        if len(agg["sets"].get("nograd_checked", ())) < 30:
            out.append("fewer than 30 nograd functions checked")
    return out
