"""G-prim: call-configuration catalogue for the differentiable primitives of autograd.numpy
(+ linalg, fft, ArrayBox methods / operators).

Every generator yields *case descriptors* (plain dicts, JSON-encodable through common.enc):
  prim, ns, form, args, kwargs, argnum, point, [domain], [outsel], [tags]
Generators enumerate option *classes* deterministically (nested loops) and draw the data from `rng`.
`cx` selects the real/complex assignment of the array arguments (C09)."""
import itertools

import numpy as onp

# ---------------------------------------------------------------- helpers


def shape_of_rank(rng, r, ones=False, lo=2, hi=3):
    if r == 0:
        return ()
    s = [int(rng.integers(lo, hi + 1)) for _ in range(r)]
    if ones:
        s[int(rng.integers(0, r))] = 1
    return tuple(s)


def sample(rng, shape, dom="any"):
    shape = tuple(shape)
    n = int(onp.prod(shape)) if shape else 1
    if dom == "any":
        a = rng.uniform(0.3, 1.7, size=shape) * rng.choice([-1.0, 1.0], size=shape)
    elif dom == "pos":
        a = rng.uniform(0.4, 2.0, size=shape)
    elif dom == "unit":
        a = rng.uniform(0.1, 0.8, size=shape) * rng.choice([-1.0, 1.0], size=shape)
    elif dom == "gt1":
        a = rng.uniform(1.3, 2.5, size=shape)
    elif dom == "gtm1":
        a = rng.uniform(-0.6, 1.5, size=shape)
    elif dom == "tan":
        a = rng.uniform(0.1, 1.2, size=shape) * rng.choice([-1.0, 1.0], size=shape)
    elif dom == "small":
        a = rng.uniform(0.2, 0.9, size=shape) * rng.choice([-1.0, 1.0], size=shape)
    elif dom == "nonint":
        a = rng.integers(-2, 3, size=shape) + rng.uniform(0.2, 0.8, size=shape)
    elif dom == "distinct":
        gap = 4.0 / max(n, 1)
        vals = -2.0 + gap * (rng.permutation(n) + 0.5) + rng.uniform(-gap / 4, gap / 4, size=n)
        a = vals.reshape(shape)
    else:
        raise ValueError(dom)
    return onp.asarray(a, dtype=float).reshape(shape)


def A(rng, shape, dom="any", cx=False):
    """ndarray sample; cx=True => generic complex with the real part in `dom`."""
    a = sample(rng, shape, dom)
    if cx:
        im = rng.uniform(0.2, 0.9, size=a.shape) * rng.choice([-1.0, 1.0], size=a.shape)
        return a + 1j * im
    return a


def scal(rng, dom="any", cx=False, kind="s"):
    v = A(rng, (), dom, cx)
    if kind == "s":
        return complex(v) if cx else float(v)
    if kind == "n":
        return onp.complex128(v) if cx else onp.float64(v)
    return v  # 0-d array


def case(prim, args, kwargs=None, argnum=0, ns="numpy", form="function", point="regular", **extra):
    d = {"prim": prim, "ns": ns, "form": form, "args": list(args), "kwargs": dict(kwargs or {}), "argnum": argnum, "point": point}
    d.update(extra)
    return d


RANKS = (0, 1, 2, 3, 4)

# ---------------------------------------------------------------- unary ufuncs

UNARY = {
    "negative": "any", "reciprocal": "any", "exp": "any", "exp2": "any", "expm1": "any", "log": "pos", "log2": "pos",
    "log10": "pos", "log1p": "gtm1", "sin": "any", "cos": "any", "tan": "tan", "arcsin": "unit", "arccos": "unit",
    "arctan": "any", "sinh": "any", "cosh": "any", "tanh": "any", "arcsinh": "any", "arccosh": "gt1", "arctanh": "unit",
    "rad2deg": "any", "degrees": "any", "deg2rad": "any", "radians": "any", "square": "any", "sqrt": "pos", "sinc": "any",
    "abs": "any", "absolute": "any", "fabs": "any", "nan_to_num": "any", "real": "any", "imag": "any", "conj": "any",
    "conjugate": "any", "angle": "any", "real_if_close": "any",
}
SMOOTH_AT_ZERO = {"negative", "exp", "exp2", "expm1", "log1p", "sin", "cos", "tan", "arcsin", "arctan", "sinh", "cosh", "tanh", "arcsinh", "arctanh", "rad2deg", "degrees", "deg2rad", "radians", "square", "sinc", "real", "imag", "conj", "conjugate", "real_if_close"}
# functions NumPy does not define for complex input
NO_COMPLEX = {"rad2deg", "degrees", "deg2rad", "radians", "fabs", "sinc_", "arctan2", "hypot", "logaddexp", "logaddexp2", "mod", "remainder", "maximum_", "fmax_", "exp2_"}
# complex domain: keep away from branch cuts
CX_DOM = {"log": "pos", "log2": "pos", "log10": "pos", "log1p": "pos", "sqrt": "pos", "arcsin": "small", "arccos": "small", "arctanh": "small", "arctan": "small", "arcsinh": "small", "arccosh": "gt1", "tan": "small", "tanh": "small", "reciprocal": "pos", "angle": "pos"}


def gen_unary(rng, cx=False):
    for name, dom in UNARY.items():
        if cx and name in NO_COMPLEX:
            continue
        d = CX_DOM.get(name, dom) if cx else dom
        for r in RANKS:
            yield case(name, [A(rng, shape_of_rank(rng, r), d, cx)])
        yield case(name, [A(rng, shape_of_rank(rng, 2, ones=True), d, cx)])
        yield case(name, [A(rng, (1,), d, cx)])
        yield case(name, [A(rng, (1, 1), d, cx)])
        yield case(name, [scal(rng, d, cx, "s")])
        yield case(name, [scal(rng, d, cx, "n")])
        if name in SMOOTH_AT_ZERO and not cx:
            # exactly 0 (and -0.0) as the point / among the entries, for functions that are smooth there: a rule
            # written as a quotient may be 0/0 at the most natural input
            yield case(name, [0.0], tags=["zero_point"])
            yield case(name, [onp.array(-0.0)], tags=["zero_point"])
            z_ = A(rng, (5,), d, False) * 0.5
            z_[[1, 3]] = [0.0, -0.0]
            yield case(name, [z_], tags=["zero_point"])
            yield case(name, [onp.zeros((2, 2))], tags=["zero_point"])
            z_ = A(rng, (4,), d, False) * 0.5
            z_[2] = 1e-9  # next to the removable singularity: cancellation
            yield case(name, [z_], tags=["zero_point"])
        if name == "negative":
            for r in (0, 2):
                yield case("neg", [A(rng, shape_of_rank(rng, r), d, cx)], form="operator")
        if name == "abs":
            for r in (0, 2):
                yield case("abs", [A(rng, shape_of_rank(rng, r), d, cx)], form="operator")
        if name == "angle":
            for shp in ((3,), (2, 2)):
                yield case("angle", [A(rng, shp, d, cx)], {"deg": True}, tags=["option"])
                yield case("angle", [A(rng, shp, d, cx)], {"deg": False}, tags=["option"])
        if cx:
            # complex dtype whose imaginary parts are exactly zero (real data that became complex on the way)
            for shp in ((3,), (2, 2)):
                yield case(name, [onp.abs(A(rng, shp, dom, False)).astype(complex)], tags=["zero_imag"])
    # out= : the caller's output buffer (a fresh one per call) - the primal result goes there, nothing else may
    dt = "complex128" if cx else "float64"
    for name in ("negative", "sin", "exp", "square", "conj", "real", "sqrt", "tanh", "reciprocal", "abs", "cumsum", "sum", "mean", "prod", "cumprod", "transpose", "ravel"):
        if cx and name in NO_COMPLEX:
            continue
        shp = (3,)
        oshp = () if name in ("sum", "mean", "prod") else shp
        odt = "float64" if name in ("real", "abs") else dt
        if name in ("transpose", "ravel"):
            continue
        yield case(name, [A(rng, shp, "pos", cx)], fresh_out=[list(oshp), odt], tags=["out_buffer"])
        # ... and the buffer given POSITIONALLY (ufuncs: right after the operands; reductions: fourth)
        pre = [None, None] if name in ("sum", "mean", "prod", "cumsum", "cumprod") else []
        yield case(name, [A(rng, shp, "pos", cx)] + pre, fresh_out=[list(oshp), odt], fresh_out_pos=1 + len(pre), tags=["out_buffer", "out_positional"])
        if name in ("sum", "mean", "prod"):
            # ... with further positional options AFTER the buffer (keepdims): the buffer is not the last argument
            yield case(name, [A(rng, (2, 3), "pos", cx), 0, None], fresh_out=[[1, 3], odt], fresh_out_pos=3, fresh_out_after=[True], tags=["out_buffer", "out_positional", "out_not_last"])
            yield case(name, [A(rng, (2, 3), "pos", cx), 1, None], fresh_out=[[2], odt], fresh_out_pos=3, fresh_out_after=[False], tags=["out_buffer", "out_positional", "out_not_last"])
    # kinks: abs/absolute/fabs at exact zeros
    if not cx:
        for name in ("abs", "absolute", "fabs"):
            for r in (0, 1, 2):
                a = A(rng, shape_of_rank(rng, r), "any")
                if r == 0:
                    a = onp.array(0.0)
                else:
                    a.ravel()[:: 2] = 0.0
                yield case(name, [a], point="kink:zero")
            yield case(name, [0.0], point="kink:zero")
    # nan_to_num with non-finite entries: masked entries have zero derivative
    if not cx:
        a = A(rng, (5,), "any")
        yield case("nan_to_num", [a])


# ---------------------------------------------------------------- binary ufuncs

BINARY = {
    "add": ("any", "any"), "subtract": ("any", "any"), "multiply": ("any", "any"), "divide": ("any", "any"),
    "true_divide": ("any", "any"), "power": ("pos", "any"), "mod": ("nonint", "pos"), "remainder": ("nonint", "pos"),
    "arctan2": ("any", "any"), "hypot": ("any", "any"), "logaddexp": ("any", "any"), "logaddexp2": ("any", "any"),
    "maximum": ("distinct", "distinct"), "minimum": ("distinct", "distinct"), "fmax": ("distinct", "distinct"), "fmin": ("distinct", "distinct"),
}
BIN_NO_COMPLEX = {"mod", "remainder", "arctan2", "hypot", "logaddexp", "logaddexp2", "maximum", "minimum", "fmax", "fmin"}
OPERATORS = {"add": "add", "subtract": "sub", "multiply": "mul", "true_divide": "truediv", "power": "pow", "mod": "mod"}


def bcast_pairs(rng):
    """(shapeA, shapeB, class) broadcast patterns."""
    out = []
    for r in (0, 1, 2, 3):
        s = shape_of_rank(rng, r)
        out.append((s, s, "none"))
    s = shape_of_rank(rng, 2)
    out.append((s, s[1:], "lead"))
    out.append((s[1:], s, "lead"))
    s3 = shape_of_rank(rng, 3)
    out.append((s3, s3[2:], "lead"))
    out.append((s3, (s3[0], 1, s3[2]), "one_vs_n"))
    out.append(((1, s3[1], 1), s3, "one_vs_n"))
    out.append(((s[0], 1), (1, s[1]), "both"))
    out.append(((s3[0], 1, s3[2]), (s3[1], 1), "both"))
    out.append((s, (), "scalar"))
    out.append(((), s, "scalar"))
    out.append(((1,), s, "one_vs_n"))
    out.append(((1, 1), (), "scalar"))
    return out


def _distinct_pair(rng, sa, sb):
    """Two arrays whose broadcast values are pairwise distinct (for max/min families)."""
    na = int(onp.prod(sa)) if sa else 1
    nb = int(onp.prod(sb)) if sb else 1
    v = sample(rng, (na + nb,), "distinct")
    rng.shuffle(v)
    return v[:na].reshape(sa), v[na:].reshape(sb)


def gen_binary(rng, cx=False):
    mixes = [(False, False)] if not cx else [(True, True), (True, False), (False, True)]
    for name, (da, db) in BINARY.items():
        if cx and name in BIN_NO_COMPLEX:
            continue
        for (sa, sb, cls) in bcast_pairs(rng):
            for (ca, cb) in mixes:
                if da == "distinct":
                    a, b = _distinct_pair(rng, sa, sb)
                else:
                    a, b = A(rng, sa, da, ca), A(rng, sb, db, cb)
                if name == "power" and cx:
                    a = A(rng, sa, "pos", ca)
                for argnum in (0, 1):
                    if cx and not (ca, cb)[argnum] and not (ca or cb):
                        continue
                    yield case(name, [a, b], argnum=argnum, bcast=cls)
        if name == "power" and cx:
            # a complex base in the LEFT half plane (away from the negative real axis, the cut of log): z**w is
            # holomorphic in the exponent with derivative log(z) z**w there as well
            for shp_ in ((3,), (2, 2)):
                zb = -onp.abs(sample(rng, shp_, "pos")) + 1j * rng.uniform(0.3, 0.9, size=shp_) * rng.choice([-1.0, 1.0], size=shp_)
                yield case(name, [zb, A(rng, shp_, "small", True)], argnum=1, tags=["left_half_plane_base"])
                yield case(name, [zb, A(rng, shp_, "small", False)], argnum=1, tags=["left_half_plane_base"])
                yield case(name, [zb, A(rng, shp_, "small", True)], argnum=0, tags=["left_half_plane_base"])
            yield case(name, [complex(-0.7, 0.6), A(rng, (3,), "small", True)], argnum=1, tags=["left_half_plane_base"])
            yield case(name, [1j * onp.array([-0.8, 0.5]), A(rng, (2,), "small", True)], argnum=1, tags=["left_half_plane_base"])
        if name in ("fmax", "fmin") and not cx:
            # NaN entries in the OTHER operand: fmax / fmin ignore them, so the differentiated operand is selected
            # there (a regular point); maximum / minimum would propagate the NaN (excluded: non-finite primal)
            for shp_ in ((5,), (2, 3)):
                a, b = _distinct_pair(rng, shp_, shp_)
                b_nan, a_nan = b.copy(), a.copy()
                b_nan.ravel()[[0, -1]] = onp.nan
                a_nan.ravel()[[1]] = onp.nan
                yield case(name, [a, b_nan], argnum=0, tags=["nan_other_operand"])
                yield case(name, [a_nan, b], argnum=1, tags=["nan_other_operand"])
            yield case(name, [sample(rng, (4,), "distinct"), float("nan")], argnum=0, tags=["nan_other_operand"])
        # python scalar / numpy scalar operands
        for (ca, cb) in mixes:
            s2 = shape_of_rank(rng, 2)
            for kind in ("s", "n"):
                if da == "distinct":
                    a, b0 = _distinct_pair(rng, s2, ())
                    b = float(b0) if kind == "s" else onp.float64(b0)
                else:
                    a, b = A(rng, s2, da, ca), scal(rng, db, cb, kind)
                yield case(name, [a, b], argnum=0, bcast="scalar")
                yield case(name, [a, b], argnum=1, bcast="scalar")
                if da == "distinct":
                    b1, a0 = _distinct_pair(rng, s2, ())
                    a1 = float(a0) if kind == "s" else onp.float64(a0)
                else:
                    a1, b1 = scal(rng, da, ca, kind), A(rng, s2, db, cb)
                yield case(name, [a1, b1], argnum=0, bcast="scalar")
                yield case(name, [a1, b1], argnum=1, bcast="scalar")
            # both python scalars
            if da != "distinct":
                yield case(name, [scal(rng, da, ca), scal(rng, db, cb)], argnum=0, bcast="scalar")
                yield case(name, [scal(rng, da, ca), scal(rng, db, cb)], argnum=1, bcast="scalar")
        # operator forms (incl. reflected: plain value on the left, tracer on the right)
        if name in OPERATORS:
            op = OPERATORS[name]
            for (ca, cb) in mixes:
                s2 = shape_of_rank(rng, 2)
                for (sa, sb) in ((s2, s2), (s2, s2[1:]), (s2, ()), ((), s2)):
                    a, b = A(rng, sa, da, ca), A(rng, sb, db, cb)
                    yield case(op, [a, b], argnum=0, form="operator")
                    yield case(op, [a, b], argnum=1, form="operator")
                yield case(op, [A(rng, s2, da, ca), scal(rng, db, cb)], argnum=0, form="operator")
                yield case(op, [scal(rng, da, ca), A(rng, s2, db, cb)], argnum=1, form="operator")
                yield case(op, [scal(rng, da, ca), scal(rng, db, cb)], argnum=1, form="operator")
                yield case(op, [scal(rng, da, ca), scal(rng, db, cb)], argnum=0, form="operator")
    # special scalar operands (exactly 1, 0, -1, 2, one half) of every flavour - Python, NumPy float64 / float32,
    # complex - on either side of an operator or function, against float64 and float32 arrays
    specials = [1, 1.0, onp.float64(1.0), onp.float32(1.0), 1 + 0j, onp.complex128(1.0), 0, 0.0, -1, -1.0, 2, 2.0, 0.5, onp.float64(2.0), True]
    for name in ("multiply", "add", "subtract", "divide", "power"):
        opn = OPERATORS.get(name)
        for sp in specials:
            if not cx and isinstance(sp, (complex, onp.complexfloating)) and name == "power":
                continue
            for x in (A(rng, (3,), "pos", cx), A(rng, (2, 2), "pos", cx).astype(onp.complex64 if cx else onp.float32)):
                if not (name in ("divide",) and sp in (0, 0.0)):
                    yield case(name, [x, sp], argnum=0, tags=["special_scalar"])
                    if opn:
                        yield case(opn, [x, sp], argnum=0, form="operator", tags=["special_scalar"])
                if not (name == "power" and sp in (0, 0.0, -1, -1.0)) and not (name == "power" and isinstance(sp, bool)):
                    yield case(name, [sp, x], argnum=1, tags=["special_scalar"])
                    if opn:
                        yield case(opn, [sp, x], argnum=1, form="operator", tags=["special_scalar"])
    dt = "complex128" if cx else "float64"
    for name in ("add", "subtract", "multiply", "divide", "true_divide", "power", "maximum", "minimum", "arctan2", "hypot"):
        if cx and name in BIN_NO_COMPLEX:
            continue
        for argnum in (0, 1):
            yield case(name, [A(rng, (3,), "pos", cx), A(rng, (3,), "pos", cx)], argnum=argnum, fresh_out=[[3], dt], tags=["out_buffer"])
            yield case(name, [A(rng, (3,), "pos", cx), A(rng, (2, 3), "pos", cx)], argnum=argnum, fresh_out=[[2, 3], dt], tags=["out_buffer"])
        yield case(name, [A(rng, (3,), "pos", cx), 1.7], argnum=0, fresh_out=[[3], dt], tags=["out_buffer"])
        for argnum in (0, 1):
            yield case(name, [A(rng, (3,), "pos", cx), A(rng, (2, 3), "pos", cx)], argnum=argnum, fresh_out=[[2, 3], dt], fresh_out_pos=2, tags=["out_buffer", "out_positional"])
        yield case(name, [A(rng, (3,), "pos", cx), 1.7], argnum=0, fresh_out=[[3], dt], fresh_out_pos=2, tags=["out_buffer", "out_positional"])
    for name, args_, oshp in (("dot", [A(rng, (2, 3), "any", cx), A(rng, (3, 2), "any", cx)], [2, 2]), ("matmul", [A(rng, (2, 3), "any", cx), A(rng, (3, 2), "any", cx)], [2, 2]), ("outer", [A(rng, (2,), "any", cx), A(rng, (3,), "any", cx)], [2, 3]),
                              ("clip", [A(rng, (3,), "any", cx), -0.5, 0.5], [3]), ("where", [onp.array([True, False, True]), A(rng, (3,), "any", cx), A(rng, (3,), "any", cx)], None)):
        if oshp is None or (cx and name == "clip"):
            continue
        for argnum in range(2 if name != "clip" else 1):
            yield case(name, args_, argnum=argnum, fresh_out=[oshp, dt], tags=["out_buffer"])
            yield case(name, args_, argnum=argnum, fresh_out=[oshp, dt], fresh_out_pos=len(args_), tags=["out_buffer", "out_positional"])
    if not cx:
        # power: integer exponents, negative base with integer exponent, exponent classes
        for r in (0, 1, 2):
            s = shape_of_rank(rng, r)
            for e in (2, 3, -1, -2, 1, 0):
                yield case("power", [A(rng, s, "any"), e], argnum=0, tags=["int_exponent"])
                yield case("pow", [A(rng, s, "any"), e], argnum=0, form="operator", tags=["int_exponent"])
            yield case("power", [A(rng, s, "any"), 2.0], argnum=0, tags=["float_int_exponent"])
            for e in (2.0, 1.0, 3.0, 0.5, -1.0):
                yield case("power", [A(rng, s, "pos"), e], argnum=0, tags=["special_exponent_posbase"])
            yield case("pow", [A(rng, s, "pos"), 2.0], argnum=0, form="operator", tags=["special_exponent_posbase"])
            yield case("power", [A(rng, s, "pos"), A(rng, s, "any")], argnum=1)
            yield case("pow", [2.0, A(rng, s, "any")], argnum=1, form="operator")
        # mod with negative divisor / negative dividend
        for r in (0, 2):
            s = shape_of_rank(rng, r)
            yield case("mod", [A(rng, s, "nonint"), -A(rng, s, "pos")], argnum=0)
            yield case("mod", [A(rng, s, "nonint"), -A(rng, s, "pos")], argnum=1)
            yield case("remainder", [-A(rng, s, "nonint"), A(rng, s, "pos")], argnum=1)
        # kinks: ties in maximum/minimum/fmax/fmin
        for name in ("maximum", "minimum", "fmax", "fmin"):
            for r in (0, 1, 2):
                s = shape_of_rank(rng, r)
                a, b = _distinct_pair(rng, s, s)
                if r == 0:
                    b = a.copy()
                else:
                    b.ravel()[::2] = a.ravel()[::2]
                yield case(name, [a, b], argnum=0, point="kink:tie")
                yield case(name, [a, b], argnum=1, point="kink:tie")
        # kinks: x**y at x = 0
        for e in (1, 2, 3, 1.0, 2.0, 0, 1.5):
            a = A(rng, (4,), "pos")
            a[::2] = 0.0
            yield case("power", [a, e], argnum=0, point="kink:powzero")
            yield case("power", [0.0, e], argnum=0, point="kink:powzero")
        a = A(rng, (4,), "pos")
        a[::2] = 0.0
        yield case("power", [a, A(rng, (4,), "gt1")], argnum=1, point="kink:powzero")
        # same value in both slots
        for name in ("add", "multiply", "subtract", "divide", "power", "arctan2", "hypot", "logaddexp"):
            yield case(name, [A(rng, (3,), "pos")], argnum=0, dup=True)


# ---------------------------------------------------------------- reductions


def axis_classes(r):
    """(axis value, class name) for an array of rank r."""
    out = [("__default__", "default"), (None, "none")]
    for i in range(r):
        out.append((i, "pos" if i else "zero"))
        out.append((i - r, "neg"))
    if r >= 2:
        out.append(((0, 1), "tuple"))
        out.append(((-1, 0), "tuple_neg"))
        out.append(((r - 1, 0), "tuple_unsorted"))
        out.append((tuple(range(r)), "tuple_all"))
        out.append(((-1,), "tuple_neg1"))
    if r >= 3:
        out.append(((0, 2), "tuple"))
        out.append(((-2, -1), "tuple_neg"))
    if r == 1:
        out.append(((0,), "tuple"))
    if r >= 1:
        out.append((onp.int64(r - 1), "npint"))
        out.append((onp.int32(-1), "npint_neg"))
        out.append(((), "tuple_empty"))
        out.append(([0], "list"))
    return out


REDUCTIONS = {"sum": "any", "mean": "any", "prod": "any", "var": "any", "std": "any", "max": "distinct", "min": "distinct", "amax": "distinct", "amin": "distinct"}
RED_NO_COMPLEX = {"max", "min", "amax", "amin"}


def gen_reductions(rng, cx=False):
    for name, dom in REDUCTIONS.items():
        if cx and name in RED_NO_COMPLEX:
            continue
        for r in RANKS:
            for ones in (False, True):
                if ones and r not in (2, 3):
                    continue
                for (ax, cls) in axis_classes(r):
                    for kd in ("__default__", True, False, onp.True_):
                        if kd is False and cls not in ("default", "neg"):
                            continue
                        if kd is onp.True_ and cls not in ("default", "zero", "tuple"):
                            continue
                        kw = {}
                        if ax != "__default__":
                            kw["axis"] = ax
                        if kd != "__default__":
                            kw["keepdims"] = kd
                        x = A(rng, shape_of_rank(rng, r, ones=ones), dom, cx)
                        yield case(name, [x], kw)
                        if name in ("var", "std") and kd == "__default__":
                            kw2 = dict(kw)
                            kw2["ddof"] = 1
                            yield case(name, [A(rng, shape_of_rank(rng, r, lo=3, hi=3), dom, cx)], kw2)
                        if cls in ("default", "neg", "tuple") and kd == "__default__" and r >= 1 and not ones:
                            yield case(name, [x], kw, form="method")
                if r >= 1:
                    # positional axis
                    yield case(name, [A(rng, shape_of_rank(rng, r), dom, cx), r - 1])
                    yield case(name, [A(rng, shape_of_rank(rng, r), dom, cx), -1], form="method")
                    # explicit accumulator dtype (the input's own, so the value is unchanged), by keyword; the
                    # kw_by_position class of the engine derives sum(x, axis, dtype) from it. Square / cube shapes:
                    # a rule that mis-parses the positional slots must not be saved by a shape error
                    dt = onp.complex128 if cx else (onp.float64, float, "float64")[r % 3]
                    for shp_ in (shape_of_rank(rng, r), (3,) * r) if name in ("sum", "mean", "prod", "var", "std") else ():
                        yield case(name, [A(rng, shp_, dom, cx)], {"axis": r - 1, "dtype": dt}, tags=["dtype_option"])
                        if r >= 2:
                            yield case(name, [A(rng, shp_, dom, cx)], {"axis": 0, "dtype": dt}, tags=["dtype_option"])
        yield case(name, [scal(rng, "any", cx)])
        if not cx and name in ("sum", "mean"):
            # more elements than the largest half-precision number (65504): a count kept in the data's own
            # precision overflows. Judged by the adjoint identity and the structure clauses (no FD at float16)
            big16 = (0.5 + sample(rng, (70000,), "pos") / 4.0).astype(onp.float16)
            yield case(name, [big16], tags=["large_reduced"])
            yield case(name, [big16.reshape(70000, 1)], {"axis": 0}, tags=["large_reduced"])
            yield case(name, [big16.reshape(2, 35000)], {"axis": -1, "keepdims": True}, tags=["large_reduced"])
        if not cx and name == "sum":
            # an accumulator dtype NARROWER than the argument: the gradient still belongs to the (float64) argument
            for shp_ in ((3,), (2, 3)):
                yield case(name, [A(rng, shp_, dom, False)], {"dtype": onp.float32}, tags=["dtype_narrow"])
                yield case(name, [A(rng, shp_, dom, False)], {"axis": 0, "dtype": onp.float32, "keepdims": True}, tags=["dtype_narrow"])
                yield case(name, [A(rng, shp_, dom, False)], {"axis": -1, "dtype": "float16"}, tags=["dtype_narrow"])
        # all-ones shapes (one element, rank >= 1)
        for shp in ((1,), (1, 1), (1, 1, 1)):
            for (ax, cls) in [("__default__", "default"), (None, "none"), (0, "zero"), (-1, "neg")] + ([((0, 1), "tuple")] if len(shp) >= 2 else []):
                for kd in ("__default__", True):
                    kw = {}
                    if ax != "__default__":
                        kw["axis"] = ax
                    if kd != "__default__":
                        kw["keepdims"] = kd
                    yield case(name, [A(rng, shp, "any", cx)], kw)
            yield case(name, [A(rng, shp, "any", cx)], form="method")
    # cumsum
    for r in RANKS:
        for (ax, cls) in [("__default__", "default"), (None, "none")] + [(i, "pos") for i in range(r)] + [(i - r, "neg") for i in range(r)]:
            kw = {} if ax == "__default__" else {"axis": ax}
            yield case("cumsum", [A(rng, shape_of_rank(rng, r), "any", cx)], kw)
            if r in (1, 3):
                yield case("cumsum", [A(rng, shape_of_rank(rng, r), "any", cx)], kw, form="method")
    for r in (1, 2, 3):
        dt = onp.complex128 if cx else onp.float64
        yield case("cumsum", [A(rng, (3,) * r, "any", cx)], {"axis": r - 1, "dtype": dt}, tags=["dtype_option"])
        yield case("cumsum", [A(rng, (3,) * r, "any", cx)], {"axis": 0, "dtype": dt}, tags=["dtype_option"])
    for shp in ((1,), (1, 1)):
        yield case("cumsum", [A(rng, shp, "any", cx)])
        yield case("cumsum", [A(rng, shp, "any", cx)], {"axis": 0})
    if not cx:
        # ties in max/min family (kink)
        for name in ("max", "min", "amax", "amin"):
            for r in (1, 2, 3):
                for (ax, cls) in [("__default__", "default"), (0, "zero"), (-1, "neg")] + ([((0, 1), "tuple")] if r >= 2 else []):
                    x = sample(rng, shape_of_rank(rng, r), "distinct")
                    flat = x.ravel()
                    # plant ties: copy the extreme value to another position
                    i = int(onp.argmax(flat) if name in ("max", "amax") else onp.argmin(flat))
                    j = (i + 1) % flat.size
                    flat[j] = flat[i]
                    kw = {} if ax == "__default__" else {"axis": ax}
                    yield case(name, [x], kw, point="kink:tie")


# ---------------------------------------------------------------- shape / selection ops


def gen_shape(rng, cx=False):
    R = lambda r, **k: A(rng, shape_of_rank(rng, r, **k), "any", cx)
    # reshape / ravel
    for order in ("__default__", "C", "F", "A", "f", "c", "a"):
        kw = {} if order == "__default__" else {"order": order}
        x = A(rng, (2, 3, 4), "any", cx)
        yield case("reshape", [x, (4, 6)], kw)
        yield case("reshape", [x, (6, -1)], kw)
        yield case("reshape", [x, 24], kw)
        yield case("reshape", [x, -1], kw)
        yield case("reshape", [x, [3, 8]], kw)
        yield case("reshape", [x, (4, 6)], kw, form="method")
        yield case("reshape", [x, 4, 6], kw, form="method")
        yield case("reshape", [x, -1], kw, form="method")
        yield case("reshape", [A(rng, (), "any", cx), (1, 1)], kw)
        yield case("reshape", [A(rng, (1,), "any", cx), ()], kw)
        # arguments that are C- and Fortran-contiguous at once (1-d, a single row, a single column)
        for shp in ((6,), (1, 6), (6, 1), (1, 1, 6)):
            yield case("reshape", [A(rng, shp, "any", cx), (2, 3)], kw, tags=["both_contiguous"])
            yield case("reshape", [A(rng, shp, "any", cx), (3, 2)], kw, form="method", tags=["both_contiguous"])
        yield case("ravel", [A(rng, (1, 6), "any", cx)], kw, tags=["both_contiguous"])
        yield case("ravel", [A(rng, (6, 1), "any", cx)], kw, tags=["both_contiguous"])
        for r in RANKS:
            yield case("ravel", [R(r)], kw)
        yield case("ravel", [R(2)], kw, form="method")
        yield case("flatten", [R(3)], kw, form="method")
    yield case("reshape", [scal(rng, "any", cx), (1,)])
    yield case("ravel", [scal(rng, "any", cx)])
    # expand_dims / squeeze
    for r in (0, 1, 2, 3):
        for ax in [0, -1, r, -(r + 1)] + ([(0, 1), (0, -1), (-1, -2), [0, 2]] if r >= 1 else [(0, 1)]):
            yield case("expand_dims", [R(r), ax])
            yield case("expand_dims", [R(r)], {"axis": ax})
    for shp, axs in (((1, 3, 1), ["__default__", None, 0, -1, 2, (0, 2), (0, -1), (-3,)]), ((2, 1), ["__default__", 1, -1]), ((1,), ["__default__", 0]), ((1, 1, 2, 1), ["__default__", (0, 1), (1, 3), -1, (-1, 0)])):
        for ax in axs:
            kw = {} if ax == "__default__" else {"axis": ax}
            yield case("squeeze", [A(rng, shp, "any", cx)], kw)
            yield case("squeeze", [A(rng, shp, "any", cx)], kw, form="method")
    # transpose family
    for r in RANKS:
        x = R(r)
        yield case("transpose", [x])
        yield case("T", [x], form="property")
        if r >= 2:
            perms = [tuple(rng.permutation(r).tolist()) for _ in range(2)] + [tuple(range(r))[::-1], tuple(range(1, r)) + (0,)]
            for p in perms:
                yield case("transpose", [R(r), p])
                yield case("transpose", [R(r)], {"axes": p})
                yield case("transpose", [R(r), list(p)])
                pn = tuple(i - r for i in p)
                yield case("transpose", [R(r), pn])
                pm = tuple((i - r if k % 2 else i) for k, i in enumerate(p))
                yield case("transpose", [R(r), pm])
                yield case("transpose", [R(r), p], form="method")
                yield case("transpose", [R(r)] + list(p), form="method")
            for (a1, a2) in [(0, 1), (0, -1), (-1, -2), (r - 1, 0), (1, 1), (-1, 0)]:
                yield case("swapaxes", [R(r), a1, a2])
                yield case("swapaxes", [R(r), a1, a2], form="method")
            for (s, d) in [(0, 1), (0, -1), (-1, 0), (r - 1, 0), ((0, 1), (1, 0)), ([0, -1], [-1, 0]), ((0,), (-1,))] + ([((0, 1, 2), (2, 0, 1)), ((0, 1), (-1, -2)), ([-3, -1], [0, 1])] if r >= 3 else []):
                yield case("moveaxis", [R(r), s, d])
            for ax in range(r):
                for st in range(r + 1):
                    yield case("rollaxis", [R(r), ax, st])
                yield case("rollaxis", [R(r), ax])
            yield case("rollaxis", [R(r), -1], tags=["guarded"])
            yield case("rollaxis", [R(r), 0, -1], tags=["guarded"])
    # roll
    for r in (1, 2, 3):
        for sh in (1, -2, 5, 0):
            for ax in ["__default__", None, 0, -1] + ([r - 1, -r] if r > 1 else []):
                kw = {} if ax == "__default__" else {"axis": ax}
                yield case("roll", [R(r), sh], kw)
        if r >= 2:
            yield case("roll", [R(r), (1, 2)], {"axis": (0, 1)})
            yield case("roll", [R(r), (1, -1)], {"axis": (-1, 0)})
            yield case("roll", [R(r), 2], {"axis": (0, 1)})
            yield case("roll", [R(r), (1, 2), (0, 1)])
    yield case("roll", [R(0), 1])
    # flips / rot90
    for r in (1, 2, 3, 4):
        yield case("flipud", [R(r)])
        if r >= 2:
            yield case("fliplr", [R(r)])
            for k in ["__default__", 0, 1, 2, 3, -1, 5]:
                x = A(rng, shape_of_rank(rng, r), "any", cx)
                yield case("rot90", [x] + ([] if k == "__default__" else [k]))
                if k != "__default__":
                    yield case("rot90", [x], {"k": k})
            yield case("rot90", [R(r), 1, (1, 0)], tags=["option"])
            if r >= 3:
                yield case("rot90", [R(r), 1, (0, 2)], tags=["option"])
                yield case("rot90", [R(r)], {"axes": (1, 2)}, tags=["option"])
    # diag family
    for k in ["__default__", 0, 1, -1, 2]:
        kargs = [] if k == "__default__" else [k]
        yield case("diag", [A(rng, (3,), "any", cx)] + kargs)
        yield case("diag", [A(rng, (3, 3), "any", cx)] + kargs)
        yield case("diag", [A(rng, (2, 4), "any", cx)] + kargs, tags=["nonsquare"])
        yield case("diag", [A(rng, (4, 2), "any", cx)] + kargs, tags=["nonsquare"])
        if k != "__default__":
            yield case("diag", [A(rng, (3, 3), "any", cx)], {"k": k})
            yield case("diag", [A(rng, (3,), "any", cx)], {"k": k})
        for shp in ((3, 3), (2, 4), (4, 2), (2, 3, 3), (3, 2, 4), (3,)):
            yield case("tril", [A(rng, shp, "any", cx)] + kargs)
            yield case("triu", [A(rng, shp, "any", cx)] + kargs)
            if k != "__default__":
                yield case("tril", [A(rng, shp, "any", cx)], {"k": k})
                yield case("triu", [A(rng, shp, "any", cx)], {"k": k})
        for shp in ((3, 3), (2, 4), (4, 2), (3, 3, 2), (2, 3, 4)):
            yield case("trace", [A(rng, shp, "any", cx)] + kargs)
            if k != "__default__":
                yield case("trace", [A(rng, shp, "any", cx)], {"offset": k})
            yield case("trace", [A(rng, shp, "any", cx)] + kargs, form="method")
    for shp in ((3, 3, 2), (2, 3, 4), (2, 2, 3, 3)):
        yield case("trace", [A(rng, shp, "any", cx)], {"axis1": 1, "axis2": 2}, tags=["option"])
        yield case("trace", [A(rng, shp, "any", cx)], {"axis1": -1, "axis2": -2}, tags=["option"])
        yield case("trace", [A(rng, shp, "any", cx), 0, 1, 2], tags=["option"])
    for shp in ((3, 3), (2, 4), (4, 2), (2, 3, 3), (3, 2, 4), (2, 2, 3, 3)):
        for kw in ({}, {"offset": 1}, {"offset": -1}, {"axis1": -1, "axis2": -2}, {"axis1": -2, "axis2": -1}, {"axis1": 0, "axis2": 1}, {"axis1": 1, "axis2": 0}, {"offset": 1, "axis1": -1, "axis2": -2}):
            if len(shp) < 3 and kw.get("axis1") == 1 and False:
                continue
            yield case("diagonal", [A(rng, shp, "any", cx)], kw)
            yield case("diagonal", [A(rng, shp, "any", cx)], kw, form="method")
        if len(shp) >= 3:
            yield case("diagonal", [A(rng, shp, "any", cx), 0, 1, 2])
            yield case("diagonal", [A(rng, shp, "any", cx), 0, -1, -2])
    # all-equal extents: a rule that mistakes which axes it was given still produces arrays of the right shape
    for shp in ((3, 3, 3), (2, 2, 2, 2)):
        r = len(shp)
        for (a1, a2) in ((0, 1), (1, 0), (1, 2), (2, 1), (0, 2), (-1, -2), (-2, -1), (-1, 0), (0, -1)):
            yield case("diagonal", [A(rng, shp, "any", cx)], {"axis1": a1, "axis2": a2}, tags=["cube"])
            yield case("trace", [A(rng, shp, "any", cx)], {"axis1": a1, "axis2": a2}, tags=["cube"])
        yield case("diagonal", [A(rng, shp, "any", cx), 1, 1, 0], tags=["cube"])
        yield case("swapaxes", [A(rng, shp, "any", cx), 0, -1], tags=["cube"])
        yield case("moveaxis", [A(rng, shp, "any", cx), 0, -1], tags=["cube"])
        yield case("transpose", [A(rng, shp, "any", cx), tuple(range(r))[1:] + (0,)], tags=["cube"])
        yield case("rollaxis", [A(rng, shp, "any", cx), r - 1, 0], tags=["cube"])
        yield case("sum", [A(rng, shp, "any", cx)], {"axis": (0, -1)}, tags=["cube"])
        yield case("cumsum", [A(rng, shp, "any", cx)], {"axis": 1}, tags=["cube"])
        yield case("flip", [A(rng, shp, "any", cx)], {"axis": (0, 2)}, tags=["cube"])
        yield case("roll", [A(rng, shp, "any", cx), 1], {"axis": 1}, tags=["cube"])
    for shp in ((3,), (2, 3), (2, 2, 3)):
        yield case("make_diagonal", [A(rng, shp, "any", cx)], {"axis1": -1, "axis2": -2})
        yield case("make_diagonal", [A(rng, shp, "any", cx), 0, -1, -2])
        yield case("make_diagonal", [A(rng, shp, "any", cx)], tags=["guarded"])
        yield case("make_diagonal", [A(rng, shp, "any", cx)], {"offset": 1, "axis1": -1, "axis2": -2}, tags=["guarded"])
    # repeat / tile
    for r in RANKS:
        for reps in (2, 3, 1):
            for ax in ["__default__", None] + list(range(r)) + [i - r for i in range(r)]:
                kw = {} if ax == "__default__" else {"axis": ax}
                yield case("repeat", [R(r), reps], kw)
                if r in (1, 2):
                    yield case("repeat", [R(r), reps], kw, form="method")
            if r >= 1:
                yield case("repeat", [R(r, ones=True), reps], {"axis": 0})
                yield case("repeat", [R(r), reps, r - 1])
                yield case("repeat", [R(r), reps, -1])
        if r >= 1:
            x = R(r)
            yield case("repeat", [x, onp.arange(1, x.shape[0] + 1)], {"axis": 0}, tags=["array_repeats"])
            yield case("repeat", [x, [2] * x.shape[-1]], {"axis": -1}, tags=["array_repeats"])
        for reps in [2, 1, (2,), (2, 1), (1, 2), (2, 3), (2, 1, 2), (1, 1, 2, 2), [2, 2], (3,), 3, (1,), ()]:
            yield case("tile", [R(r), reps])
    yield case("repeat", [scal(rng, "any", cx), 3])
    yield case("tile", [scal(rng, "any", cx), 3])
    yield case("tile", [scal(rng, "any", cx), (2, 2)])
    # broadcast_to / atleast / full / linspace
    for (shp, new) in (((3,), (2, 3)), ((1, 3), (2, 3)), ((2, 1), (2, 3)), ((1, 1), (2, 3)), ((), (2, 2)), ((3,), (2, 2, 3)), ((2, 1, 3), (2, 4, 3)), ((1,), (4,)), ((2, 3), (2, 3)), ((1, 3), (4, 2, 3))):
        yield case("broadcast_to", [A(rng, shp, "any", cx), new])
        yield case("broadcast_to", [A(rng, shp, "any", cx), list(new)])
    yield case("broadcast_to", [scal(rng, "any", cx), (2, 2)])
    yield case("broadcast_to", [A(rng, (1,), "any", cx), 3])
    for name in ("atleast_1d", "atleast_2d", "atleast_3d"):
        for r in RANKS:
            yield case(name, [R(r)])
        yield case(name, [scal(rng, "any", cx)])
        yield case(name, [R(1), R(2)], tags=["guarded"], outsel=[0])
    for shp in ((3,), (2, 3), 3, (), (1,), [2, 2]):
        yield case("full", [shp, scal(rng, "any", cx)], argnum=1)
        yield case("full", [shp, A(rng, (), "any", cx)], argnum=1)
        yield case("full", [shp], {"fill_value": scal(rng, "any", cx)}, argnum=None, diffkw="fill_value", tags=["kwarg_diff"])
    yield case("full", [(2, 3), A(rng, (3,), "any", cx)], argnum=1, tags=["array_fill"])
    yield case("full", [(2, 3), A(rng, (2, 1), "any", cx)], argnum=1, tags=["array_fill"])
    yield case("full", [(2, 3), A(rng, (1,), "any", cx)], argnum=1, tags=["array_fill"])
    for num in (5, 2, 1, 7):
        for argnum in (0, 1):
            yield case("linspace", [scal(rng, "any", cx), scal(rng, "any", cx), num], argnum=argnum)
            yield case("linspace", [scal(rng, "any", cx), scal(rng, "any", cx)], {"num": num}, argnum=argnum)
            yield case("linspace", [A(rng, (), "any", cx), A(rng, (), "any", cx), num], argnum=argnum)
    for argnum in (0, 1):
        yield case("linspace", [scal(rng, "any", cx), scal(rng, "any", cx)], argnum=argnum)
        yield case("linspace", [scal(rng, "any", cx), scal(rng, "any", cx), 5], {"endpoint": False}, argnum=argnum, tags=["option"])
        yield case("linspace", [A(rng, (2,), "any", cx), A(rng, (2,), "any", cx), 4], argnum=argnum, tags=["array_endpoints"])
        yield case("linspace", [A(rng, (2,), "any", cx), scal(rng, "any", cx), 4], argnum=argnum, tags=["array_endpoints"])
        yield case("linspace", [A(rng, (2,), "any", cx), A(rng, (2,), "any", cx), 4], {"axis": -1}, argnum=argnum, tags=["array_endpoints", "option"])
    # pad
    for r in (1, 2, 3):
        for w in [1, 2, (1, 2), (0, 1), [(1, 2)], (1,), [1], 0] + ([[(1, 0), (0, 2)], ((1, 1), (2, 0))] if r == 2 else []) + ([((1, 0), (0, 1), (2, 1))] if r == 3 else []):
            yield case("pad", [R(r), w, "constant"])
            yield case("pad", [R(r), w], {"mode": "constant"})
        yield case("pad", [R(r), 1], tags=["default_mode"])
        yield case("pad", [R(r), 1, "constant"], {"constant_values": 0.0})
        yield case("pad", [R(r), 1, "constant"], {"constant_values": 2.0}, tags=["option"])
        yield case("pad", [R(r, lo=4, hi=4), 2, "mean"], {"stat_length": 2}, tags=["unsupported_mode", "option"])
        yield case("pad", [R(r, lo=4, hi=4), 2, "reflect"], {"reflect_type": "odd"}, tags=["unsupported_mode", "option"])
        yield case("pad", [R(r, lo=4, hi=4), 2, "symmetric"], {"reflect_type": "odd"}, tags=["unsupported_mode", "option"])
        yield case("pad", [R(r, lo=4, hi=4), 2, "linear_ramp"], {"end_values": 3.0}, tags=["unsupported_mode", "option"])
        yield case("pad", [R(r, lo=4, hi=4), (1, 2), "edge"], tags=["unsupported_mode"])
        for mode in ("edge", "reflect", "wrap", "symmetric", "linear_ramp", "mean", "maximum", "minimum", "median"):
            yield case("pad", [R(r, lo=3, hi=3), 1, mode], tags=["unsupported_mode"])
            yield case("pad", [R(r, lo=3, hi=3), 1], {"mode": mode}, tags=["unsupported_mode"])
    # split family
    for r in (1, 2, 3):
        for ax in ["__default__"] + list(range(r)) + [-1]:
            kw = {} if ax == "__default__" else {"axis": ax}
            a = 0 if ax == "__default__" else ax
            shp = list(shape_of_rank(rng, r))
            shp[a] = 4
            for sec in (2, [1, 3], (1,), [0, 2], [2, 2], 4, 1):
                yield case("split", [A(rng, shp, "any", cx), sec], kw)
                yield case("array_split", [A(rng, shp, "any", cx), sec], kw)
            yield case("array_split", [A(rng, shp, "any", cx), 3], kw, tags=["uneven"])
            if ax != "__default__":
                yield case("split", [A(rng, shp, "any", cx), 2, ax])
    yield case("vsplit", [A(rng, (4, 3), "any", cx), 2])
    yield case("vsplit", [A(rng, (4, 3, 2), "any", cx), [1, 3]])
    yield case("hsplit", [A(rng, (3, 4), "any", cx), 2])
    yield case("hsplit", [A(rng, (4,), "any", cx), 2])
    yield case("hsplit", [A(rng, (2, 4, 2), "any", cx), [1]])
    yield case("dsplit", [A(rng, (2, 3, 4), "any", cx), 2])
    yield case("dsplit", [A(rng, (2, 3, 4), "any", cx), [1, 2]])
    # where / clip
    for (sc, sx, sy) in (((2, 3), (2, 3), (2, 3)), ((3,), (2, 3), (2, 3)), ((2, 3), (3,), (2, 3)), ((2, 3), (2, 3), (3,)), ((2, 3), (), (2, 3)), ((2, 3), (2, 3), ()), ((2, 1), (1, 3), (2, 3)), ((), (2,), (2,)), ((2, 3), (1, 3), (2, 1)), ((2, 2, 3), (3,), (2, 1, 1))):
        c = rng.uniform(size=sc) > 0.5
        for argnum in (1, 2):
            yield case("where", [c, A(rng, sx, "any", cx), A(rng, sy, "any", cx)], argnum=argnum)
    # the (float) condition itself is the differentiated argument: registered non-differentiable, the
    # derivative is an exact zero of the argument's (reverse) / the output's (forward) space
    for sc in ((), (3,), (2, 3), (1, 3), (2, 1)):
        yield case("where", [A(rng, sc, "any", False), A(rng, (2, 3), "any", cx), A(rng, (2, 3), "any", cx)], argnum=0, tags=["traced_condition"])
    yield case("where", [scal(rng, "any", False), A(rng, (2, 3), "any", cx), scal(rng, "any", cx)], argnum=0, tags=["traced_condition"])
    yield case("where", [A(rng, (3,), "any", False), scal(rng, "any", cx), A(rng, (2, 2, 3), "any", cx)], argnum=0, tags=["traced_condition"])
    c = rng.uniform(size=(2, 3)) > 0.5
    yield case("where", [c, scal(rng, "any", cx), A(rng, (2, 3), "any", cx)], argnum=1, tags=["scalar_branch"])
    yield case("where", [c, A(rng, (2, 3), "any", cx), scal(rng, "any", cx)], argnum=2, tags=["scalar_branch"])
    yield case("where", [c, scal(rng, "any", cx), A(rng, (2, 3), "any", cx)], argnum=2, tags=["scalar_branch"])
    yield case("where", [True, scal(rng, "any", cx), scal(rng, "any", cx)], argnum=1, tags=["scalar_branch"])
    if not cx:
        for r in RANKS:
            x = sample(rng, shape_of_rank(rng, r), "distinct")
            yield case("clip", [x, -0.77, 0.81])
            yield case("clip", [x, -0.77, 0.81], form="method")
            yield case("clip", [x], {"a_min": -0.77, "a_max": 0.81})
            yield case("clip", [x, None, 0.81])
            yield case("clip", [x, -0.77, None])
            # NumPy >= 2.1 spelling of the bounds, including bounds that are exactly zero / falsy
            yield case("clip", [x], {"min": -0.77, "max": 0.81}, tags=["min_max_kw"])
            yield case("clip", [x], {"min": 0, "max": 0.81}, tags=["min_max_kw"])
            yield case("clip", [x], {"min": -0.77, "max": 0.0}, tags=["min_max_kw"])
            yield case("clip", [x], {"min": 0.0}, tags=["min_max_kw"])
            yield case("clip", [x], {"max": 0}, tags=["min_max_kw"])
            yield case("clip", [x], {"min": -0.77, "max": 0.81}, form="method", tags=["min_max_kw"])
            yield case("clip", [x], {"min": 0, "max": 0.81}, form="method", tags=["min_max_kw"])
            yield case("clip", [x, 0, 0.81], tags=["zero_bound"])
            yield case("clip", [x, -0.77, 0], tags=["zero_bound"])
            yield case("clip", [x], {"a_min": 0, "a_max": 0.81}, tags=["zero_bound"])
            if r >= 1:
                lo = onp.full(x.shape[-1:], -0.77)
                yield case("clip", [x, lo, 0.81], tags=["array_bound"])
                yield case("clip", [x, -0.77, onp.full(x.shape, 0.81)], tags=["array_bound"])
        yield case("clip", [0.3, -0.77, 0.81])
        for r in (0, 1, 2):
            x = sample(rng, shape_of_rank(rng, r), "distinct")
            if r == 0:
                x = onp.array(0.81)
            else:
                x.ravel()[0] = 0.81
                x.ravel()[-1] = -0.77
            yield case("clip", [x, -0.77, 0.81], point="kink:bound")
    # sort / partition
    if not cx:
        for n in (1, 2, 5):
            x = sample(rng, (n,), "distinct")
            yield case("sort", [x])
            yield case("sort", [x], {"axis": 0})
            yield case("sort", [x], {"axis": -1})
            yield case("sort", [x], {"kind": "stable"})
            if n > 1:
                for kth in (0, n - 1, n // 2, -1):
                    yield case("partition", [x, kth])
        # long vectors (NumPy switches algorithm with the length) for every sorting kind, without ties and
        # with two-way ties: the permutation a rule recomputes must be the one the other mode uses
        for n in (24, 40):
            for kind in ("__default__", "quicksort", "stable", "heapsort", "mergesort"):
                kw = {} if kind == "__default__" else {"kind": kind}
                yield case("sort", [sample(rng, (n,), "distinct")], kw, tags=["long"])
                half = sample(rng, (n // 2,), "distinct")
                xt = onp.concatenate([half, half])[rng.permutation(n)]
                yield case("sort", [xt], kw, point="kink:tie", tags=["long"])
            xt = onp.concatenate([half, half])[rng.permutation(n)]
            yield case("partition", [xt, n // 3], point="kink:tie", tags=["long"])
        for shp in ((3, 4), (2, 3, 2)):
            for ax in ("__default__", 0, -1, None):
                kw = {} if ax == "__default__" else {"axis": ax}
                yield case("sort", [sample(rng, shp, "distinct")], kw, tags=["multid"])
                yield case("partition", [sample(rng, shp, "distinct"), 1], kw, tags=["multid"])
    # diff / gradient
    for r in (1, 2, 3):
        for n in ("__default__", 1, 2, 3, 0):
            for ax in ["__default__"] + list(range(r)) + [-1, -r]:
                kw = {}
                if n != "__default__":
                    kw["n"] = n
                if ax != "__default__":
                    kw["axis"] = ax
                yield case("diff", [R(r, lo=4, hi=4), ], kw)
        yield case("diff", [R(r, lo=4, hi=4), 2])
        yield case("diff", [R(r, lo=4, hi=4), 1, 0])
        yield case("diff", [R(r, lo=2, hi=2), 3], tags=["n_exceeds"])
        for ax in ["__default__"] + list(range(r)) + [-1] + ([(0, 1), (1, 0), (-1, -2), [0, 1]] if r >= 2 else []):
            kw = {} if ax == "__default__" else {"axis": ax}
            sel = None
            yield case("gradient", [R(r, lo=5, hi=5)], kw)
        yield case("gradient", [R(r, lo=5, hi=5), 2.0], tags=["guarded"])
        yield case("gradient", [R(r, lo=5, hi=5)], {"edge_order": 2}, tags=["guarded"])
        yield case("gradient", [R(r, lo=3, hi=3)], tags=["short"])
        yield case("gradient", [R(r, lo=4, hi=4)], tags=["short"])
        yield case("gradient", [R(r, lo=2, hi=2)], tags=["short"])
    # cross
    for (sa, sb, kw) in (((3,), (3,), {}), ((2, 3), (2, 3), {}), ((3,), (4, 3), {}), ((4, 3), (3,), {}), ((2,), (2,), {}), ((2, 2), (2, 2), {}), ((3, 2), (3, 2), {"axis": 0}), ((3, 4), (3, 4), {"axisa": 0, "axisb": 0}), ((3, 4), (4, 3), {"axisa": 0, "axisb": 1}), ((3, 4), (3, 4), {"axisa": 0, "axisb": 0, "axisc": 0}), ((2, 3), (2, 3), {"axis": -1}), ((2, 4, 3), (4, 3), {}), ((2, 3), (2, 3), {"axisc": 0}), ((1, 3), (4, 3), {}), ((3,), (2, 2, 3), {})):
        for argnum in (0, 1):
            yield case("cross", [A(rng, sa, "any", cx), A(rng, sb, "any", cx)], kw, argnum=argnum)
    # astype
    for r in (0, 2):
        yield case("astype", [R(r), onp.float64], form="method")
        yield case("astype", [R(r), "float32"], form="method", tags=["reduced"])
        yield case("astype", [R(r), complex], form="method", tags=["to_complex"])
        yield case("astype", [R(r), float], {"copy": False}, form="method")
        if not cx:
            # kind AND precision change at once (float64 -> complex64 / clongdouble): the gradient goes back to float64
            yield case("astype", [R(r), onp.complex64], form="method", tags=["to_complex", "reduced"])
            yield case("astype", [R(r), "complex64"], {"copy": True}, form="method", tags=["to_complex", "reduced"])
            yield case("astype", [R(r), onp.clongdouble], form="method", tags=["to_complex"])
            yield case("astype", [R(r), onp.float16], form="method", tags=["reduced"])
            yield case("astype", [R(r), onp.longdouble], form="method")


# ---------------------------------------------------------------- list-taking constructors


def gen_lists(rng, cx=False):
    """concatenate/stack/... : the differentiated argument is one element of the list; encoded with
    form='listfun': args[0] is the list, argnum indexes into the list."""
    R = lambda shp: A(rng, shp, "any", cx)
    L = []
    for ax in ("__default__", 0, 1, -1, -2, None):
        kw = {} if ax == "__default__" else {"axis": ax}
        for shapes in (((2, 3), (2, 3)), ((2, 3), (2, 3), (2, 3)), ((2, 3),)):
            L.append(("concatenate", shapes, kw))
            L.append(("stack", shapes, kw))
        L.append(("concatenate", ((2, 3), (1, 3)), kw))
        L.append(("concatenate", ((2, 3), (2, 1), (2, 2)), kw))
        L.append(("concatenate", ((3,), (2,)), kw))
        L.append(("concatenate", ((2, 2, 3), (2, 1, 3)), kw))
        L.append(("stack", ((3,), (3,), (3,)), kw))
        L.append(("stack", ((), ()), kw))
        L.append(("stack", ((2, 2, 2), (2, 2, 2)), kw))
    for shapes in (((3,), (3,)), ((2, 3), (1, 3)), ((), ()), ((3,), (1, 3)), ((2, 2, 3), (1, 2, 3)), ((3,),)):
        L.append(("vstack", shapes, {}))
        L.append(("row_stack", shapes, {}))
    for shapes in (((3,), (2,)), ((2, 3), (2, 1)), ((), ()), ((), (2,)), ((2, 2, 3), (2, 1, 3)), ((2,),)):
        L.append(("hstack", shapes, {}))
    for shapes in (((3,), (3,)), ((3, 2), (3,)), ((), ()), ((3,), (3, 1), (3, 2)), ((2, 3),)):
        L.append(("column_stack", shapes, {}))
    for shapes in (((), ()), ((2,), (2,)), ((), (), ()), ((2, 2), (2, 2)), ((1,),)):
        L.append(("array", shapes, {}))
        L.append(("array", shapes, {"ndmin": 3}))
    for (name, shapes, kw) in L:
        for argnum in range(len(shapes)):
            lst = [R(s) for s in shapes]
            yield case(name, [lst], kw, argnum=argnum, form="listfun")
        if len(shapes) >= 2:
            lst = [R(s) for s in shapes]
            yield case(name, [tuple(lst)], kw, argnum=0, form="listfun", tags=["tuple_arg"])
            lst = [R(s) for s in shapes]
            yield case(name, [lst], kw, argnum=0, form="listfun", tags=["all_traced"], alltraced=True)
    # the same array object in several slots of one list (x, x) / (x, c, x) / (c, x, x)
    for (name, shp, kw) in (("concatenate", (2, 3), {}), ("concatenate", (2, 3), {"axis": 1}), ("concatenate", (3,), {}), ("stack", (2, 3), {}), ("stack", (3,), {"axis": -1}), ("vstack", (3,), {}), ("vstack", (2, 3), {}),
                            ("hstack", (3,), {}), ("hstack", (2, 3), {}), ("column_stack", (3,), {}), ("array", (2,), {}), ("array", (), {}), ("row_stack", (3,), {})):
        for pat in ((0, 1), (0, 2), (1, 2), (0, 1, 2)):
            lst = [R(shp) for _ in range(3 if max(pat) == 2 else 2)]
            yield case(name, [lst], kw, argnum=pat[0], form="listfun", dup_paths=[[p_] for p_ in pat], tags=["same_object_twice"])
    # scalars inside lists (python floats)
    for name in ("array", "stack", "hstack", "concatenate_0d"):
        if name == "concatenate_0d":
            continue
        yield case(name, [[scal(rng, "any", cx), scal(rng, "any", cx), scal(rng, "any", cx)]], argnum=1, form="listfun")
    # nested lists for array
    yield case("array", [[[scal(rng, "any", cx), scal(rng, "any", cx)], [scal(rng, "any", cx), scal(rng, "any", cx)]]], argnum=(1, 0), form="listfun", tags=["nested"])
    yield case("array", [[R((2,)), [scal(rng, "any", cx), scal(rng, "any", cx)]]], argnum=0, form="listfun", tags=["nested"])
    # array() of a single array / scalar
    for r in (0, 1, 2):
        yield case("array", [R(shape_of_rank(rng, r))])
        yield case("array", [R(shape_of_rank(rng, r))], {"ndmin": 3})
        yield case("array", [R(shape_of_rank(rng, r))], {"ndmin": 1})
    for shp in ((1,), (1, 2), (2, 1), (1, 1)):
        for nd in (1, 2, 3, 4):
            yield case("array", [R(shp)], {"ndmin": nd})
    for shapes in (((1,), (1,)), ((1,), (1, 1)), ((1, 2), (1,))):
        for argnum in range(len(shapes)):
            yield case("column_stack", [[R(s_) for s_ in shapes]], argnum=argnum, form="listfun")
    yield case("array", [scal(rng, "any", cx)])
    yield case("array", [scal(rng, "any", cx)], {"ndmin": 2})
    # dtype= changing the kind / precision of the differentiated argument (real -> complex, double -> single)
    for dt_ in (complex, "complex128", onp.float32, "float64"):
        if cx and dt_ in (onp.float32, "float64"):
            continue
        yield case("array", [R((3,))], {"dtype": dt_}, tags=["dtype_change"])
        yield case("array", [R((2, 2)), dt_], tags=["dtype_change", "positional_dtype"])
        yield case("array", [R((3,))], {"dtype": dt_, "ndmin": 3}, tags=["dtype_change"])
        yield case("array", [scal(rng, "any", cx)], {"dtype": dt_}, tags=["dtype_change"])
    # append
    for (sa, sv, kw) in (((3,), (2,), {}), ((2, 3), (2,), {}), ((2, 3), (1, 3), {"axis": 0}), ((2, 3), (2, 2), {"axis": 1}), ((2, 3), (2, 2), {"axis": -1}), ((3,), (), {}), ((), (), {}), ((2, 2), (2, 2), {"axis": None})):
        for argnum in (0, 1):
            yield case("append", [R(sa), R(sv)], kw, argnum=argnum)
    yield case("append", [R((3,)), scal(rng, "any", cx)], argnum=1)
    # select
    c1 = rng.uniform(size=(4,)) > 0.5
    c2 = rng.uniform(size=(4,)) > 0.5
    for argnum in (0, 1):
        yield case("select", [[c1, c2], [R((4,)), R((4,))]], argnum=argnum, form="selectfun")
        yield case("select", [[c1, c2], [R((4,)), R((4,))]], {"default": 1.5}, argnum=argnum, form="selectfun")
    c1 = rng.uniform(size=(2, 3)) > 0.5
    c2 = rng.uniform(size=(2, 3)) > 0.5
    yield case("select", [[c1, c2], [R((2, 3)), R((2, 3))]], argnum=1, form="selectfun")
    yield case("select", [[c1, c2], [R((3,)), R((2, 3))]], argnum=0, form="selectfun", tags=["bcast"])
    yield case("select", [[c1], [R((2, 3))]], argnum=0, form="selectfun")
    # the fall-back value itself is the differentiated argument (array, broadcast row, scalar)
    yield case("select", [[c1, c2], [R((2, 3)), R((2, 3))], R((2, 3))], argnum=2, tags=["traced_default"])
    yield case("select", [[c1, c2], [R((2, 3)), R((2, 3))], R((3,))], argnum=2, tags=["traced_default", "bcast"])
    yield case("select", [[c1 & ~c1, c2 & ~c2], [R((2, 3)), R((2, 3))], R((2, 3))], argnum=2, tags=["traced_default", "nothing_selected"])
    yield case("select", [[c1, c2], [R((2, 3)), R((2, 3))], scal(rng, "any", cx)], argnum=2, tags=["traced_default"])
    # r_ / c_
    for argnum in (0, 1):
        yield case("r_", [[R((2,)), R((3,))]], argnum=argnum, form="indexer")
        yield case("c_", [[R((3,)), R((3,))]], argnum=argnum, form="indexer")
        yield case("r_", [[scal(rng, "any", cx), scal(rng, "any", cx)]], argnum=argnum, form="indexer")
        yield case("r_", [[R((2, 2)), R((1, 2))]], argnum=argnum, form="indexer")
        yield case("c_", [[R((2, 2)), R((2, 1))]], argnum=argnum, form="indexer")
        yield case("r_", [["1", R((2, 2)), R((2, 1))]], argnum=argnum + 1, form="indexer", tags=["directive"])
        yield case("r_", [["0,2", R((2,)), R((2,))]], argnum=argnum + 1, form="indexer", tags=["directive"])
    yield case("r_", [[R((2,)), 1.5, R((2,))]], argnum=0, form="indexer")
    yield case("r_", [[R((2,)), 1.5, R((2,))]], argnum=2, form="indexer")


# ---------------------------------------------------------------- contractions


def gen_contract(rng, cx=False):
    mixes = [(False, False)] if not cx else [(True, True), (True, False), (False, True)]

    def both(name, sa, sb, kw=None, extra=(), **k):
        for (ca, cb) in mixes:
            for argnum in (0, 1):
                if cx and not (ca, cb)[argnum] and False:
                    continue
                yield case(name, [A(rng, sa, "any", ca), A(rng, sb, "any", cb)] + list(extra), kw, argnum=argnum, **k)

    # dot: all rank pairs 0..4 with matching contraction dims
    for ra in RANKS:
        for rb in RANKS:
            if ra + rb > 6:
                continue
            sa = shape_of_rank(rng, ra)
            sb = list(shape_of_rank(rng, rb))
            if ra >= 1 and rb >= 1:
                k = sa[-1]
                if rb == 1:
                    sb[0] = k
                else:
                    sb[-2] = k
            yield from both("dot", sa, tuple(sb))
    for (ca, cb) in mixes:
        yield case("dot", [A(rng, (2, 3), "any", ca), A(rng, (3, 4), "any", cb)], argnum=0, form="method")
    for (ca, cb) in mixes:
        yield case("dot", [scal(rng, "any", ca), A(rng, (2, 2), "any", cb)], argnum=0)
        yield case("dot", [A(rng, (2, 2), "any", ca), scal(rng, "any", cb)], argnum=1)
        yield case("dot", [scal(rng, "any", ca), scal(rng, "any", cb)], argnum=1)
    yield from both("dot", (1, 3), (3, 1))
    yield from both("dot", (3, 1), (1, 3))
    # matmul incl. batch broadcasting
    for (sa, sb) in (((3,), (3,)), ((2, 3), (3,)), ((3,), (3, 2)), ((2, 3), (3, 4)), ((2, 2, 3), (3, 4)), ((2, 3), (2, 3, 4)), ((2, 2, 3), (2, 3, 4)), ((2, 1, 2, 3), (3, 3, 2)), ((1, 2, 3), (4, 3, 2)), ((2, 2, 3), (3,)), ((3,), (2, 3, 2)), ((3, 1, 2, 3), (1, 2, 3, 2)), ((1, 3), (3, 1)), ((2, 1, 3), (1, 3, 1))):
        yield from both("matmul", sa, sb)
        yield from both("matmul", sa, sb, form="operator")
    # inner / outer / kron
    for (sa, sb) in (((), ()), ((3,), (3,)), ((2, 3), (3,)), ((3,), (2, 3)), ((2, 3), (4, 3)), ((2, 2, 3), (4, 3)), ((2, 3), ()), ((), (2, 3)), ((2, 2, 3), (2, 2, 3))):
        yield from both("inner", sa, sb)
    for (sa, sb) in (((3,), (2,)), ((), (2,)), ((2,), ()), ((), ()), ((2, 2), (3,)), ((3,), (2, 2)), ((2, 2), (2, 3)), ((1,), (3,))):
        yield from both("outer", sa, sb)
    for (sa, sb) in (((), ()), ((2,), (3,)), ((2, 3), (3,)), ((2,), (2, 3)), ((2, 3), (3, 2)), ((), (2, 2)), ((2, 2), ()), ((2, 2, 2), (2, 3)), ((2, 3), (2, 2, 2)), ((2, 2, 2), (2, 2, 2)), ((1, 2), (2, 1)), ((2, 2, 2), (3,))):
        yield from both("kron", sa, sb)
    # tensordot
    TD = [((2, 3), (3, 4), 1), ((2, 3), (2, 3), 2), ((2, 3), (3, 4), 0), ((2, 3, 4), (3, 4, 2), 2), ((2, 3, 4), (4, 2), 1), ((3,), (3,), 1), ((3,), (2,), 0),
          ((2, 3, 4), (4, 3, 2), ([1, 2], [1, 0])), ((2, 3, 4), (4, 3, 2), ((2, 1), (0, 1))), ((2, 3, 4), (2, 3), ([0], [0])), ((2, 3, 4), (2, 3), (0, 0)),
          ((2, 3, 4), (3, 2), ([0, 1], [1, 0])), ((2, 3, 4), (3, 2), ([-3, -2], [-1, -2])), ((2, 3, 4), (4,), (-1, 0)), ((2, 3), (3, 2), ([1, 0], [0, 1])),
          ((2, 3, 4), (2, 3, 4), 3), ((2, 3, 4), (2, 3, 4), ([0, 1, 2], [0, 1, 2])), ((2, 3, 4), (4, 2, 3), ([0, 1, 2], [1, 2, 0])), ((2, 3, 2, 3), (3, 2), ([3, 2], [0, 1])),
          ((2, 3, 2, 3), (2, 3, 2), ([1, 2], [1, 0])), ((2, 3), (4,), ([], [])), ((2, 3, 4), (2, 4, 3), ([2, 1], [1, 2]))]
    for (sa, sb, axes) in TD:
        yield from both("tensordot", sa, sb, extra=[axes])
        yield from both("tensordot", sa, sb, kw={"axes": axes})
    yield from both("tensordot", (2, 3, 4), (3, 4, 2))
    yield from both("tensordot", (3, 4), (3, 4))
    # axes as NumPy integer ARRAYS (a pair of 1-d arrays, one 2-d array), with negative entries: caller-owned
    # objects a rule may not normalise in place
    for axes_ in ((onp.array([-1, 1]), onp.array([0, 2])), onp.array([[-1, 1], [0, -1]]), (onp.array([-2]), onp.array([1])), [onp.array([2, -2]), [0, 2]]):
        yield from both("tensordot", (2, 3, 4), (4, 2, 3), extra=[axes_])
        yield from both("tensordot", (2, 3, 4), (4, 2, 3), kw={"axes": axes_})
    for (ca, cb) in mixes:
        yield case("tensordot", [A(rng, (), "any", ca), A(rng, (2, 2), "any", cb), 0], argnum=0)
        yield case("tensordot", [A(rng, (2, 2), "any", ca), A(rng, (), "any", cb), 0], argnum=1)
        yield case("tensordot", [A(rng, (2, 2), "any", ca), A(rng, (), "any", cb), 0], argnum=0)
    # einsum
    ES = [("ij,jk->ik", [(2, 3), (3, 4)]), ("ij,jk", [(2, 3), (3, 4)]), ("ij->ji", [(2, 3)]), ("ii->i", [(3, 3)]), ("ii", [(3, 3)]), ("ii->", [(3, 3)]),
          ("ij->", [(2, 3)]), ("ij->i", [(2, 3)]), ("i,i->", [(3,), (3,)]), ("i,j->ij", [(3,), (2,)]), ("i,i->i", [(3,), (3,)]), ("i,i", [(3,), (3,)]),
          ("ijk,jk->i", [(2, 3, 4), (3, 4)]), ("ijk,kj->i", [(2, 3, 4), (4, 3)]), ("bij,bjk->bik", [(2, 2, 3), (2, 3, 2)]),
          ("...ij,...jk->...ik", [(2, 2, 3), (2, 3, 2)]), ("...ij,jk->...ik", [(2, 2, 3), (3, 2)]), ("ij,...jk->...ik", [(2, 3), (2, 3, 2)]),
          ("...ij,...jk->...ik", [(2, 3), (3, 2)]), ("...ij,...jk->...ik", [(2, 1, 2, 3), (3, 3, 2)]), ("i...,i...->...", [(3, 2), (3, 2)]),
          ("i...j,j->i...", [(2, 3, 4), (4,)]), ("...,...->...", [(2, 3), (2, 3)]), ("...,...", [(2, 3), (3,)]), ("...i,...i->...", [(2, 3), (3,)]),
          ("...i->...", [(2, 3)]), ("i...->...", [(2, 3)]), ("ij,ij,ij->ij", [(2, 3), (2, 3), (2, 3)]), ("ij,jk,kl->il", [(2, 3), (3, 2), (2, 4)]),
          ("i,ij,j->", [(2,), (2, 3), (3,)]), ("ijj->i", [(2, 3, 3)]), ("iij->j", [(3, 3, 2)]), ("ij,ij->", [(2, 3), (2, 3)]), ("ij,j->i", [(1, 3), (3,)]),
          ("ij,ij->ij", [(1, 3), (2, 3)]), ("ij,ij->ij", [(2, 1), (2, 3)]), ("...ij,...ij->...ij", [(1, 2, 3), (4, 2, 3)]), ("a,b,c->abc", [(2,), (3,), (2,)]),
          ("ijk->kji", [(2, 3, 4)]), ("ijkl,klmn->ijmn", [(2, 2, 2, 3), (2, 3, 2, 2)]), ("i->", [(3,)]), ("->", [()]), (",->", [(), ()]), (",i->i", [(), (3,)]),
          ("ij , jk -> ik", [(2, 3), (3, 4)]), ("ii->i", [(1, 1)]), ("ij,kj->ik", [(2, 3), (4, 3)]),
          # an operand broadcast over two or more ellipsis dimensions (leading, trailing, both)
          ("i...,i...->i...", [(3,), (3, 2, 4)]), ("i...,i...->i...", [(3, 2, 4), (3,)]), ("...i,...i->...i", [(3,), (2, 4, 3)]), ("...i,...i->...i", [(2, 4, 3), (3,)]),
          ("...,...->...", [(), (2, 3, 2)]), ("i...j,i...j->i...j", [(3, 2), (3, 2, 4, 2)]), ("i...,i...->i...", [(3, 1, 4), (3, 2, 4)]), ("i...,i...->i...", [(3, 3), (3, 3, 3)]),
          ("i...,i...->...", [(3,), (3, 3, 3)]), ("...i,...i->...", [(3,), (3, 3, 3)])]
    for (subs, shapes) in ES:
        nops = len(shapes)
        cmixes = [tuple([False] * nops)] if not cx else [tuple([True] * nops)] + ([tuple([i == 0 for i in range(nops)]), tuple([i != 0 for i in range(nops)])] if nops > 1 else [])
        for cm in cmixes:
            for argnum in range(nops):
                ops = [A(rng, s, "any", c) for s, c in zip(shapes, cm)]
                yield case("einsum", [subs] + ops, argnum=argnum + 1)
    # every string form again through the (operand, sublist, ..., sublistout) interface
    def _term(t):
        out = []
        t = t.replace(" ", "")
        while t:
            if t.startswith("..."):
                out.append(Ellipsis)
                t = t[3:]
            else:
                out.append(ord(t[0]) - ord("a"))
                t = t[1:]
        return out

    for (subs, shapes) in ES:
        lhs, arrow, rhs = subs.replace(" ", "").partition("->")
        terms = lhs.split(",")
        for argnum in range(len(shapes)):
            args = []
            for sh, t in zip(shapes, terms):
                args += [A(rng, sh, "any", cx), _term(t)]
            if arrow:
                args.append(_term(rhs))
            yield case("einsum", args, argnum=2 * argnum, tags=["sublist", "from_string"] + ([] if arrow else ["no_sublistout"]))
    # einsum sublist form
    SUB = [([(2, 3), [0, 1], (3, 4), [1, 2]], [0, 2]), ([(2, 3), [0, 1], (3, 4), [1, 2]], None), ([(3, 3), [0, 0]], [0]), ([(2, 3), [0, 1]], [1, 0]),
           ([(2, 2, 3), [Ellipsis, 0, 1], (2, 3, 2), [Ellipsis, 1, 2]], [Ellipsis, 0, 2]), ([(2, 2, 3), [0, Ellipsis, 1], (3,), [1]], [0, Ellipsis]),
           ([(2, 2, 3), [0, 1, Ellipsis], (2, 2), [0, 1]], [Ellipsis]), ([(1, 3), [0, 1], (2, 3), [0, 1]], [0, 1]), ([(2, 3), [Ellipsis, 1], (3,), [1]], [Ellipsis])]
    for (opsub, outl) in SUB:
        nops = len(opsub) // 2
        for argnum in range(nops):
            args = []
            for i in range(nops):
                args.append(A(rng, opsub[2 * i], "any", cx))
                args.append(opsub[2 * i + 1])
            if outl is not None:
                args.append(outl)
            yield case("einsum", args, argnum=2 * argnum, tags=["sublist"] + ([] if outl is not None else ["no_sublistout"]))
    # same tracer in several slots
    yield case("einsum", ["ij,jk,kl->il", A(rng, (3, 3), "any", cx)], argnum=1, dup=3)
    yield case("dot", [A(rng, (3, 3), "any", cx)], argnum=0, dup=True)
    yield case("matmul", [A(rng, (3, 3), "any", cx)], argnum=0, dup=True)
    yield case("tensordot", [A(rng, (3, 3), "any", cx)], argnum=0, dup=True)
    yield case("outer", [A(rng, (3,), "any", cx)], argnum=0, dup=True)
    yield case("kron", [A(rng, (2, 2), "any", cx)], argnum=0, dup=True)
    yield case("where3", [A(rng, (3,), "any", cx)], argnum=0, form="special")


# ---------------------------------------------------------------- linalg


def well_cond(rng, shape, cx=False):
    n = shape[-1]
    a = 0.3 * rng.standard_normal(shape)
    if cx:
        a = a + 0.3j * rng.standard_normal(shape)
    return a + onp.eye(n) * (1.5 + 0.2 * n)


def spd(rng, shape, cx=False):
    n = shape[-1]
    m = 0.4 * rng.standard_normal(shape)
    if cx:
        m = m + 0.4j * rng.standard_normal(shape)
    return m @ onp.conj(onp.swapaxes(m, -1, -2)) + onp.eye(n) * 1.5


def sym_sep(rng, shape, cx=False):
    """Symmetric/Hermitian with well separated spectrum."""
    n = shape[-1]
    q = rng.standard_normal(shape)
    if cx:
        q = q + 1j * rng.standard_normal(shape)
    q, _ = onp.linalg.qr(q)
    lam = onp.arange(1, n + 1) * 1.0 + rng.uniform(-0.2, 0.2, size=shape[:-1])
    return (q * lam[..., None, :]) @ onp.conj(onp.swapaxes(q, -1, -2))


def sep_sv(rng, shape, cx=False):
    """Matrix with well separated singular values."""
    m, n = shape[-2:]
    k = min(m, n)
    u = rng.standard_normal(shape[:-2] + (m, k))
    v = rng.standard_normal(shape[:-2] + (n, k))
    if cx:
        u = u + 1j * rng.standard_normal(u.shape)
        v = v + 1j * rng.standard_normal(v.shape)
    u, _ = onp.linalg.qr(u)
    v, _ = onp.linalg.qr(v)
    s = onp.arange(1, k + 1) * 1.0 + rng.uniform(-0.2, 0.2, size=shape[:-2] + (k,))
    return (u * s[..., None, :]) @ onp.conj(onp.swapaxes(v, -1, -2))


def real_eig(rng, shape, cx=False):
    """General matrix with real, well separated eigenvalues (real case) / separated complex ones."""
    n = shape[-1]
    p = well_cond(rng, shape, cx)
    lam = onp.arange(1, n + 1) * 1.0 + rng.uniform(-0.2, 0.2, size=shape[:-1])
    if cx:
        lam = lam + 1j * rng.uniform(-0.5, 0.5, size=lam.shape)
    return p @ (lam[..., :, None] * onp.linalg.inv(p))


def gen_linalg(rng, cx=False):
    batches = [(), (2,), (2, 2)]
    for b in batches:
        for n in (1, 2, 3):
            shp = b + (n, n)
            yield case("det", [well_cond(rng, shp, cx)], ns="linalg")
            yield case("slogdet", [well_cond(rng, shp, cx)], ns="linalg", outsel=[1])
            yield case("slogdet", [well_cond(rng, shp, cx)], ns="linalg", tags=["both_outputs"])
            yield case("inv", [well_cond(rng, shp, cx)], ns="linalg")
            for bs in ((n,), (n, 2)) if not b else (b + (n, 2), b + (n, 1)):
                for argnum in (0, 1):
                    yield case("solve", [well_cond(rng, shp, cx), A(rng, bs, "any", cx)], ns="linalg", argnum=argnum)
            yield case("cholesky", [spd(rng, shp, cx)], ns="linalg", domain="herm")
            for uplo in ("__default__", "L", "U", "l", "u"):
                kw = {} if uplo == "__default__" else {"UPLO": uplo}
                yield case("eigh", [sym_sep(rng, shp, cx)], kw, ns="linalg", outsel=[0], tags=["values"])
                yield case("eigh", [sym_sep(rng, shp, cx)], kw, ns="linalg", tags=["values+vectors"], gauge="eigvec")
            yield case("eig", [real_eig(rng, shp, cx)], ns="linalg", outsel=[0], tags=["values"])
            yield case("eig", [real_eig(rng, shp, cx)], ns="linalg", tags=["values+vectors"], gauge="eigvec")
        if b != (2, 2):
            yield case("solve", [well_cond(rng, b + (2, 2), cx), A(rng, (2, 3), "any", cx)], ns="linalg", argnum=1, tags=["bcast_b"])
        if b:
            for argnum in (0, 1):
                yield case("solve", [well_cond(rng, (2, 2), cx), A(rng, b + (2, 3), "any", cx)], ns="linalg", argnum=argnum, tags=["bcast_a"])
        if b:
            for argnum in (0, 1):
                yield case("solve", [well_cond(rng, b + (2, 2), cx), A(rng, (2,), "any", cx)], ns="linalg", argnum=argnum, tags=["vec_b_batched_a"])
        for (m, n) in ((2, 2), (3, 2), (2, 3), (3, 3), (1, 3), (3, 1)):
            shp = b + (m, n)
            yield case("pinv", [sep_sv(rng, shp, cx)], ns="linalg")
            yield case("svd", [sep_sv(rng, shp, cx)], {"compute_uv": False}, ns="linalg")
            yield case("svd", [sep_sv(rng, shp, cx)], {"full_matrices": False}, ns="linalg", gauge="svd")
            yield case("svd", [sep_sv(rng, shp, cx)], {"full_matrices": False}, ns="linalg", outsel=[1])
            yield case("svd", [sep_sv(rng, shp, cx), False], ns="linalg", outsel=[1])
            yield case("svd", [sep_sv(rng, shp, cx)], ns="linalg", outsel=[1], tags=["full_matrices_default"])
            yield case("svd", [sep_sv(rng, shp, cx)], {"full_matrices": True}, ns="linalg", outsel=[1], tags=["full_matrices_true"])
    # norm
    ords = ["__default__", None, 2, 3, 1.5, "fro", "nuc", 1, onp.inf, -onp.inf, 0, -1, -2, 4]
    for shp in ((4,), (3, 3), (2, 3), (2, 3, 3), (2, 2, 2, 3)):
        r = len(shp)
        axes = ["__default__", None] + list(range(r)) + [-1]
        if r >= 2:
            axes += [(0, 1), (1, 0), (-1, -2), (-2, -1)]
        if r >= 3:
            axes += [(0, 2), (1, 2), (2, 0), (0, -1), (1, -1), (-2, 0), (-1, 0), (-1, 1)]
        elif r == 2:
            axes += [(0, -1), (-1, 0)]
        for o in ords:
            for ax in axes:
                for kd in ("__default__", True):
                    kw = {}
                    if o != "__default__":
                        kw["ord"] = o
                    if ax != "__default__":
                        kw["axis"] = ax
                    if kd != "__default__":
                        if o not in ("__default__", 2, "fro", "nuc") or (isinstance(ax, tuple) and ax not in ((0, 1), (-1, -2))):
                            continue
                        kw["keepdims"] = kd
                    x = sep_sv(rng, shp, cx) if r >= 2 else A(rng, shp, "any", cx)
                    yield case("norm", [x], kw, ns="linalg")
    yield case("norm", [A(rng, (4,), "any", cx), 3], ns="linalg")
    yield case("norm", [A(rng, (2, 3), "any", cx), "fro"], ns="linalg")
    yield case("norm", [A(rng, (2, 3), "any", cx), None, 1], ns="linalg")
    yield case("norm", [scal(rng, "any", cx)], ns="linalg")
    yield case("norm", [A(rng, (), "any", cx)], ns="linalg")


# ---------------------------------------------------------------- fft


def gen_fft(rng, cx=False):
    norms = ["__default__", None, "backward", "ortho", "forward"]
    # complex-to-complex 1-D
    for name in ("fft", "ifft"):
        for shp in ((4,), (5,), (3, 4), (2, 3, 4)):
            r = len(shp)
            for n in ("__default__", None, "smaller", "equal", "larger"):
                for ax in ["__default__"] + list(range(r)) + [-1, -r]:
                    for nm in norms:
                        if nm not in ("__default__",) and not (n in ("__default__", "larger") and ax in ("__default__", 0)):
                            continue
                        a = -1 if ax == "__default__" else ax
                        L = shp[a]
                        nv = {"smaller": L - 1, "equal": L, "larger": L + 2}.get(n, None)
                        kw = {}
                        if n != "__default__":
                            kw["n"] = nv
                        if ax != "__default__":
                            kw["axis"] = ax
                        if nm != "__default__":
                            kw["norm"] = nm
                        yield case(name, [A(rng, shp, "any", cx)], kw, ns="fft")
                        if n not in ("__default__", None) and nm == "__default__" and ax in ("__default__", 0):
                            kw2 = {k: v for k, v in kw.items() if k != "n"}
                            yield case(name, [A(rng, shp, "any", cx), nv], kw2, ns="fft", tags=["positional_n"])
    # n-D complex
    for name in ("fft2", "ifft2", "fftn", "ifftn"):
        for shp in ((3, 4), (2, 3, 4), (2, 2, 3, 4)):
            r = len(shp)
            axes_opts = ["__default__", (0, 1), (-2, -1), (-1, -2), (1, 0), (0, -1)]
            if name in ("fftn", "ifftn"):
                axes_opts += [None, (0,), (-1,), tuple(range(r)), [0, 1]]
            if r >= 3:
                axes_opts += [(0, 2), (1, 2), (-3, -1)]
            for ax in axes_opts:
                for s in ("__default__", "smaller", "equal", "larger", "mixed"):
                    for nm in norms:
                        if nm != "__default__" and not (s in ("__default__", "larger") and ax in ("__default__", (0, 1))):
                            continue
                        if ax == "__default__" or ax is None:
                            use = (r - 2, r - 1) if name in ("fft2", "ifft2") else tuple(range(r))
                        else:
                            use = tuple(ax)
                        lens = [shp[a] for a in use]
                        if s == "__default__":
                            sv = None
                        elif s == "smaller":
                            sv = tuple(max(1, l - 1) for l in lens)
                        elif s == "equal":
                            sv = tuple(lens)
                        elif s == "larger":
                            sv = tuple(l + 1 for l in lens)
                        else:
                            sv = tuple(l + (1 if i % 2 else -1) for i, l in enumerate(lens))
                            sv = tuple(max(1, t) for t in sv)
                        kw = {}
                        if s != "__default__":
                            if ax in ("__default__", None) and name in ("fftn", "ifftn"):
                                # numpy 2 requires axes when s is given
                                kw["axes"] = use
                            kw["s"] = sv
                        if ax != "__default__":
                            kw["axes"] = ax
                        if nm != "__default__":
                            kw["norm"] = nm
                        yield case(name, [A(rng, shp, "any", cx)], kw, ns="fft")
            # repeated axes (guarded)
            yield case(name, [A(rng, shp, "any", cx)], {"axes": (0, 0)}, ns="fft", tags=["repeated_axes"])
            yield case(name, [A(rng, shp, "any", cx)], {"axes": (-1, -1)}, ns="fft", tags=["repeated_axes"])
            yield case(name, [A(rng, shp, "any", cx)], {"s": (shp[0] + 1, shp[0] + 2), "axes": (0, 0)}, ns="fft", tags=["repeated_axes", "with_s"])
            yield case(name, [A(rng, shp, "any", cx)], {"s": (2, 3), "axes": (-1, -1)}, ns="fft", tags=["repeated_axes", "with_s"])
    # real ffts
    for (name, dim) in (("rfft", 1), ("irfft", 1), ("rfft2", 2), ("irfft2", 2), ("rfftn", 0), ("irfftn", 0)):
        inverse = name.startswith("i")
        shapes = ((4,), (6,), (5,), (3, 4), (4, 6), (2, 3, 4), (3, 5)) if dim == 1 else ((4, 6), (3, 4), (2, 4, 6), (3, 5), (2, 2, 4, 4))
        for shp in shapes:
            r = len(shp)
            if dim == 1:
                axes_opts = ["__default__"] + list(range(r)) + [-1]
                key = "axis"
            else:
                axes_opts = ["__default__", (0, 1), (-2, -1), (1, 0)] + ([(0, 2), (1, 2)] if r >= 3 else [])
                if dim == 0:
                    axes_opts += [(r - 1,), (-1,), tuple(range(r))]
                key = "axes"
            for ax in axes_opts:
                for s in ("__default__", "smaller_even", "equal", "larger_even", "odd"):
                    for nm in norms:
                        if nm != "__default__" and not (s in ("__default__", "larger_even") and ax in ("__default__", (0, 1), 0)):
                            continue
                        if ax == "__default__":
                            use = (r - 1,) if dim == 1 else ((r - 2, r - 1) if dim == 2 else tuple(range(r)))
                        elif dim == 1:
                            use = (ax,)
                        else:
                            use = tuple(ax)
                        if inverse:
                            # input is the compressed spectrum: complex array; output length default 2*(m-1)
                            lens = [shp[a] for a in use]
                            out_last = 2 * (lens[-1] - 1)
                            full = lens[:-1] + [out_last]
                        else:
                            full = [shp[a] for a in use]
                        if s == "__default__":
                            sv = None
                        elif s == "smaller_even":
                            sv = [max(1, l - 1) for l in full[:-1]] + [max(2, (full[-1] - 1) // 2 * 2)]
                        elif s == "equal":
                            sv = list(full)
                        elif s == "larger_even":
                            sv = [l + 1 for l in full[:-1]] + [(full[-1] + 2) // 2 * 2 + 2]
                        else:
                            sv = list(full[:-1]) + [full[-1] // 2 * 2 + 1]
                        kw = {}
                        if s != "__default__":
                            if dim == 1:
                                kw["n"] = sv[0]
                            else:
                                kw["s"] = tuple(sv)
                                if ax == "__default__" and dim == 0:
                                    kw["axes"] = use
                        if ax != "__default__":
                            kw[key] = ax
                        if nm != "__default__":
                            kw["norm"] = nm
                        x = A(rng, shp, "any", True if inverse else cx)
                        tags = []
                        if s == "odd" or (s in ("__default__", "equal") and not inverse and full[-1] % 2 == 1):
                            tags.append("odd_length")
                        yield case(name, [x], kw, ns="fft", tags=tags)
                        if inverse and not cx and nm == "__default__" and s in ("__default__", "larger_even"):
                            # a REAL array handed to the inverse real transform (NumPy reads it as a spectrum
                            # with zero imaginary part): the gradient belongs to a real argument
                            yield case(name, [A(rng, shp, "any", False)], kw, ns="fft", tags=tags + ["real_spectrum"])
                        if dim == 1 and s not in ("__default__",) and nm == "__default__" and ax == "__default__":
                            yield case(name, [x, sv[0]], {}, ns="fft", tags=tags + ["positional_n"])
            if dim != 1:
                # repeated transform axes (guarded in the rules), with and without s, on even-length data
                xs_ = A(rng, shp, "any", True if inverse else cx)
                for rep_ax in ((0, 0), (-1, -1), (1, 1)):
                    yield case(name, [xs_], {"axes": rep_ax}, ns="fft", tags=["repeated_axes"])
                    yield case(name, [xs_], {"s": (4, 4), "axes": rep_ax}, ns="fft", tags=["repeated_axes", "with_s"])
    # out= (NumPy >= 2): the caller's buffer receives the primal spectrum / signal; the adjoint transform of a later
    # pull-back must leave it alone. Keyword and positional spelling, a fresh buffer per call
    for name, shp, oshp, odt, xc in (("fft", (4,), [4], "complex128", True), ("ifft", (2, 4), [2, 4], "complex128", True), ("fft2", (2, 4), [2, 4], "complex128", True), ("ifftn", (2, 2, 4), [2, 2, 4], "complex128", True),
                                     ("rfft", (6,), [4], "complex128", False), ("irfft", (4,), [6], "float64", True), ("rfft2", (2, 6), [2, 4], "complex128", False), ("irfftn", (2, 4), [2, 6], "float64", True)):
        if not cx and (not xc or not name.startswith("ir")):
            yield case(name, [A(rng, shp, "any", False)], ns="fft", fresh_out=[oshp, odt], tags=["out_buffer"])
        elif cx and xc:
            yield case(name, [A(rng, shp, "any", True)], ns="fft", fresh_out=[oshp, odt], tags=["out_buffer"])
            if name in ("fft", "ifft", "irfft"):
                yield case(name, [A(rng, shp, "any", True), None, -1, None], ns="fft", fresh_out=[oshp, odt], fresh_out_pos=4, tags=["out_buffer", "out_positional"])
    # shifts
    for name in ("fftshift", "ifftshift"):
        for shp in ((4,), (5,), (3, 4), (2, 3, 5)):
            r = len(shp)
            for ax in ["__default__", None, 0, -1] + ([(0, 1), (-1, -2), (0,), [0, 1], 1] if r >= 2 else []):
                kw = {} if ax == "__default__" else {"axes": ax}
                yield case(name, [A(rng, shp, "any", cx)], kw, ns="fft")
            yield case(name, [A(rng, shp, "any", cx), 0], ns="fft")


GROUPS = {
    "unary": gen_unary,
    "binary": gen_binary,
    "reductions": gen_reductions,
    "shape": gen_shape,
    "lists": gen_lists,
    "contract": gen_contract,
    "linalg": gen_linalg,
    "fft": gen_fft,
}


def all_cases(rng, cx=False, groups=None):
    for g, fn in GROUPS.items():
        if groups and g not in groups:
            continue
        for c in fn(rng, cx):
            c["group"] = g
            yield c


# ---------------------------------------------------------------- scipy (secondary interpreter only)

SP_UNARY = {"gamma": "pos", "gammaln": "pos", "digamma": "pos", "psi": "pos", "rgamma": "pos", "j0": "pos", "y0": "pos", "j1": "pos", "y1": "pos", "i0": "any", "i1": "any",
            "erf": "any", "erfc": "any", "erfinv": "unit", "erfcinv": "frac", "logit": "frac", "expit": "any"}


def _dom(rng, shape, dom):
    if dom == "frac":
        return rng.uniform(0.15, 0.85, size=shape)
    return sample(rng, shape, dom)


def gen_scipy(rng, cx=False):
    if cx:
        return
    for name, dom in SP_UNARY.items():
        for shp in ((), (3,), (2, 3), (1,), (2, 1, 2)):
            yield case(name, [_dom(rng, shp, dom)], ns="scipy.special")
        yield case(name, [float(_dom(rng, (), dom))], ns="scipy.special")
    for name in ("polygamma", "jn", "yn", "iv", "ive"):
        for n in (0, 1, 2):
            for shp in ((), (3,), (2, 2)):
                yield case(name, [n, _dom(rng, shp, "pos")], ns="scipy.special", argnum=1)
    for name in ("gammainc", "gammaincc"):
        for shp in ((), (3,)):
            yield case(name, [1.7, _dom(rng, shp, "pos")], ns="scipy.special", argnum=1)
            yield case(name, [_dom(rng, shp, "pos") + 0.5, _dom(rng, shp, "pos")], ns="scipy.special", argnum=1)
    for name in ("beta", "betaln"):
        for (sa, sb) in (((), ()), ((3,), (3,)), ((2, 3), (3,)), ((3,), ())):
            for argnum in (0, 1):
                yield case(name, [_dom(rng, sa, "pos") + 0.3, _dom(rng, sb, "pos") + 0.3], ns="scipy.special", argnum=argnum)
    for name in ("betainc",):
        yield case(name, [1.4, 2.3, _dom(rng, (3,), "frac")], ns="scipy.special", argnum=2)
    # logsumexp
    for shp in ((4,), (2, 3), (2, 3, 2), (1,), ()):
        r = len(shp)
        for ax in ["__default__", None] + list(range(r)) + ([-1] if r else []) + ([(0, 1), (-1, 0)] if r >= 2 else []):
            for kd in ("__default__", True):
                kw = {}
                if ax != "__default__":
                    kw["axis"] = ax
                if kd != "__default__":
                    kw["keepdims"] = kd
                yield case("logsumexp", [A(rng, shp, "any")], kw, ns="scipy.special")
        if r:
            yield case("logsumexp", [A(rng, shp, "any")], {"b": sample(rng, shp, "pos")}, ns="scipy.special")
            yield case("logsumexp", [A(rng, shp, "any")], {"b": sample(rng, shp, "pos"), "axis": 0}, ns="scipy.special")
            yield case("logsumexp", [A(rng, shp, "any")], {"b": 2.0, "axis": -1, "keepdims": True}, ns="scipy.special")
            yield case("logsumexp", [A(rng, shp, "any"), r - 1], ns="scipy.special")
    # signal.convolve
    for (sa, sb, kw) in (((5,), (3,), {}), ((3,), (5,), {}), ((5,), (3,), {"mode": "valid"}), ((5,), (3,), {"mode": "full"}), ((3,), (5,), {"mode": "valid"}), ((4, 5), (2, 3), {}), ((4, 5), (2, 3), {"mode": "valid"}),
                         ((2, 3), (4, 5), {"mode": "valid"}), ((4, 4), (3, 3), {"mode": "full"}), ((3, 4, 5), (2, 2, 2), {}), ((3, 4, 5), (2, 2, 2), {"mode": "valid"}), ((2, 5), (2, 3), {"axes": ([1], [1]), "dot_axes": ([0], [0])}),
                         ((2, 5), (2, 3), {"axes": ([1], [1]), "dot_axes": ([0], [0]), "mode": "valid"}), ((3, 5), (4, 3), {"axes": ([1], [0])}), ((3, 5), (4, 3), {"axes": ([1], [0]), "mode": "valid"}), ((2, 4, 5), (2, 2, 3), {"axes": ([1, 2], [1, 2]), "dot_axes": ([0], [0])}),
                         ((3, 3), (3, 3), {}), ((3, 3), (3, 3), {"mode": "valid"}), ((1,), (4,), {}), ((4,), (1,), {"mode": "valid"})):
        for argnum in (0, 1):
            yield case("convolve", [A(rng, sa, "any"), A(rng, sb, "any")], kw, ns="scipy.signal", argnum=argnum)
    # scipy.linalg
    for n in (2, 3):
        for lower in (False, True):
            for trans in (0, 1, "T", "N"):
                a = (onp.tril if lower else onp.triu)(well_cond(rng, (n, n)))
                for bs in ((n,), (n, 2)):
                    for argnum in (0, 1):
                        yield case("solve_triangular", [a, A(rng, bs, "any")], {"lower": lower, "trans": trans}, ns="scipy.linalg", argnum=argnum, domain=("tril" if lower else "triu") if argnum == 0 else None)
        yield case("sqrtm", [spd(rng, (n, n))], ns="scipy.linalg")
        for argnum in (0, 1, 2):
            yield case("solve_sylvester", [well_cond(rng, (n, n)), well_cond(rng, (n, n)), A(rng, (n, n), "any")], ns="scipy.linalg", argnum=argnum)
    # scipy.stats
    for dist, funs, nargs in (("norm", ("pdf", "cdf", "logpdf", "logcdf", "sf", "logsf"), 3), ("t", ("pdf", "cdf", "logpdf", "logcdf"), 4), ("gamma", ("pdf", "cdf", "logpdf"), 2), ("beta", ("pdf", "cdf", "logpdf"), 3), ("chi2", ("pdf", "logpdf"), 2), ("poisson", ("pmf", "logpmf", "cdf"), 2)):
        for fn in funs:
            for shp in ((), (3,), (2, 3)):
                if dist == "norm":
                    base = [A(rng, shp, "any"), float(rng.uniform(-0.5, 0.5)), float(rng.uniform(0.7, 1.6))]
                elif dist == "t":
                    base = [A(rng, shp, "any"), float(rng.uniform(2.5, 5.0)), float(rng.uniform(-0.5, 0.5)), float(rng.uniform(0.7, 1.6))]
                elif dist == "gamma":
                    base = [sample(rng, shp, "pos"), float(rng.uniform(1.5, 3.0))]
                elif dist == "beta":
                    base = [_dom(rng, shp, "frac"), float(rng.uniform(1.5, 3.0)), float(rng.uniform(1.5, 3.0))]
                elif dist == "chi2":
                    base = [sample(rng, shp, "pos") + 0.5, float(rng.uniform(2.5, 5.0))]
                else:
                    base = [onp.floor(sample(rng, shp, "pos") * 3.0), float(rng.uniform(1.5, 3.0))]
                for argnum in range(nargs):
                    yield case(fn, list(base), ns="scipy.stats." + dist, argnum=argnum)
                # array-valued parameters broadcast against x
                if shp == (2, 3) and dist == "norm":
                    yield case(fn, [A(rng, shp, "any"), A(rng, (3,), "small"), sample(rng, (2, 1), "pos") + 0.5], ns="scipy.stats.norm", argnum=1, tags=["bcast_params"])
                    yield case(fn, [A(rng, shp, "any"), A(rng, (3,), "small"), sample(rng, (2, 1), "pos") + 0.5], ns="scipy.stats.norm", argnum=2, tags=["bcast_params"])
                    yield case(fn, [A(rng, (3,), "any"), A(rng, shp, "small"), 1.3], ns="scipy.stats.norm", argnum=0, tags=["bcast_params"])
    m = onp.array([0.3, -0.2, 0.5])
    cov = spd(rng, (3, 3))
    for fn in ("logpdf", "pdf", "entropy"):
        for argnum in ((0, 1, 2) if fn != "entropy" else (1,)):
            args = [A(rng, (3,), "any"), m.copy(), cov.copy()] if fn != "entropy" else [m.copy(), cov.copy()]
            yield case(fn, args, ns="scipy.stats.multivariate_normal", argnum=argnum, domain="herm" if (argnum == 2 or (fn == "entropy" and argnum == 1)) else None)
        if fn != "entropy":
            yield case(fn, [A(rng, (4, 3), "any"), m.copy(), cov.copy()], ns="scipy.stats.multivariate_normal", argnum=0, tags=["batch_x"])
    yield case("logpdf", [_dom(rng, (3,), "frac") / 2.0, sample(rng, (3,), "pos") + 0.5], ns="scipy.stats.dirichlet", argnum=1)


SCIPY_GROUPS = {"scipy": gen_scipy}


def scipy_cases(rng):
    for c in gen_scipy(rng, False):
        c["group"] = "scipy"
        yield c
