"""G-idx: NumPy index expressions of every kind, pre-validated on NumPy by the engine."""
import numpy as onp


def _int(rng, n):
    return int(rng.integers(-n, n))


def _slice(rng, n):
    k = int(rng.integers(0, 8))
    if k == 0:
        return slice(None)
    if k == 1:
        return slice(int(rng.integers(0, n)), None)
    if k == 2:
        return slice(None, int(rng.integers(-n, n + 1)))
    if k == 3:
        return slice(None, None, -1)
    if k == 4:
        return slice(int(rng.integers(0, n)), None, 2)
    if k == 5:
        return slice(None, None, int(rng.choice([2, 3, -2])))
    if k == 6:
        a = int(rng.integers(0, n))
        return slice(a, a)  # empty
    return slice(int(rng.integers(-n, 0)), None, -1)


def _intarr(rng, n, shape=None, neg=True):
    if shape is None:
        shape = (int(rng.integers(1, 5)),)
    lo = -n if neg else 0
    return rng.integers(lo, n, size=shape)


def gen_index(rng, shape):
    """Returns (index, class_name)."""
    r = len(shape)
    kinds = ["int", "slice", "ellipsis", "newaxis", "intarr", "intarr_rep", "boolmask", "list", "mixed_adv_slice", "two_adv", "adv_bcast", "tuple_ints", "bool_lead", "empty_list", "neg_step", "scalar_arr", "adv_newaxis", "bool_and_slice", "ellipsis_mid", "bool_list", "bool_list_in_tuple", "npbool_list", "nested_bool_list", "one_true_list", "npint", "npint_tuple", "intlist_neg", "intarr_neg_only", "tuple_seq_rep", "tuple_seq_rep", "list_in_tuple_rep", "range_index", "range_index"]
    if r == 0:
        k = rng.choice(["ellipsis", "newaxis", "empty_tuple", "bool_scalar"])
        if k == "ellipsis":
            return Ellipsis, "r0:ellipsis"
        if k == "newaxis":
            return None, "r0:newaxis"
        if k == "empty_tuple":
            return (), "r0:empty_tuple"
        return onp.array(True), "r0:bool_scalar"
    k = str(rng.choice(kinds))
    n0 = shape[0]
    if k == "int":
        return _int(rng, n0), k
    if k == "slice":
        return tuple(_slice(rng, shape[i]) for i in range(int(rng.integers(1, r + 1)))), k
    if k == "ellipsis":
        return (Ellipsis, _int(rng, shape[-1])), k
    if k == "ellipsis_mid":
        if r >= 2:
            return (_int(rng, n0), Ellipsis, _slice(rng, shape[-1])), k
        return (Ellipsis,), k
    if k == "newaxis":
        return (None, _slice(rng, n0), None) if rng.uniform() < 0.5 else (_slice(rng, n0), None), k
    if k == "intarr":
        return _intarr(rng, n0), k
    if k == "intarr_rep":
        a = _intarr(rng, n0, (5,))
        a[1] = a[0]
        a[3] = a[0]
        return a, k
    if k == "boolmask":
        m = rng.uniform(size=shape) > 0.5
        return m, k
    if k == "bool_lead":
        m = rng.uniform(size=(n0,)) > 0.4
        return m, k
    if k == "list":
        return [int(t) for t in _intarr(rng, n0)], k
    if k == "bool_list":
        m = [bool(t) for t in (rng.uniform(size=(n0,)) > 0.4)]
        if not any(m):
            m[0] = True
        return m, k
    if k == "npint":
        return onp.int64(_int(rng, n0)), k
    if k == "npint_tuple":
        return (onp.int32(_int(rng, n0)),) + tuple(_slice(rng, shape[i]) for i in range(1, r)), k
    if k == "intlist_neg":
        return [int(t) for t in rng.integers(-n0, 0, size=3)] + [int(rng.integers(0, n0))], k
    if k == "intarr_neg_only":
        return rng.integers(-n0, 0, size=(int(rng.integers(1, 5)),)), k
    if k == "range_index":
        # a range object as index (NumPy reads it as an integer array): descending down to position 0 (stop -1
        # means "before 0" for a range but "the last element" for a slice), negative starts, steps
        v = int(rng.integers(0, 6))
        rg = [range(n0 - 1, -1, -1), range(-min(3, n0), 0), range(0, n0, 2), range(n0 - 1, -1, -2), range(n0), range(1, 1)][v]
        if r >= 2 and rng.uniform() < 0.4:
            return (_slice(rng, n0), range(shape[1] - 1, -1, -1)), k
        return rg, k
    if k in ("tuple_seq_rep", "list_in_tuple_rep"):
        # an integer-array index SPELLED as a tuple (or list) nested inside the index tuple, with repeated
        # positions; NumPy reads a sequence inside the index tuple as an array index whatever its type
        mk = (lambda seq: tuple(int(t) for t in seq)) if k == "tuple_seq_rep" else (lambda seq: [int(t) for t in seq])
        a = _intarr(rng, n0, (4,))
        a[2] = a[0]
        v = int(rng.integers(0, 5))
        if v == 0 or r == 1:
            return (mk(a),), k
        if v == 1:
            b = _intarr(rng, shape[1], (4,))
            b[2] = b[0]
            return (mk(a), mk(b)), k
        if v == 2:
            b = _intarr(rng, shape[1], (3,))
            b[1] = b[0]
            return (slice(None), mk(b)), k
        if v == 3:
            b = _intarr(rng, shape[-1], (2,))
            b[1] = b[0]
            return (Ellipsis, mk(b), None), k
        return (mk(a), _slice(rng, shape[1])), k
    if k == "npbool_list":
        m = list(rng.uniform(size=(n0,)) > 0.4)  # elements are numpy.bool_
        if not any(m):
            m[0] = onp.True_
        return m, k
    if k == "one_true_list":
        m = [False] * n0
        m[int(rng.integers(0, n0))] = True
        return (m if rng.uniform() < 0.5 else [onp.bool_(t) for t in m]), k
    if k == "nested_bool_list":
        if r >= 2:
            return [[bool(t) for t in row] for row in (rng.uniform(size=shape[:2]) > 0.5)], k
        return [bool(t) for t in (rng.uniform(size=(n0,)) > 0.5)] or [True], k
    if k == "bool_list_in_tuple":
        m = [bool(t) for t in (rng.uniform(size=(n0,)) > 0.4)]
        return (m,) + ((slice(None),) if r >= 2 else ()), k
    if k == "empty_list":
        return onp.array([], dtype=int), k
    if k == "neg_step":
        return (slice(None, None, -2),) + ((slice(None, None, -1),) if r >= 2 else ()), k
    if k == "scalar_arr":
        return onp.array(_int(rng, n0)), k
    if k == "tuple_ints":
        return tuple(_int(rng, shape[i]) for i in range(r)), k
    if r == 1:
        # remaining kinds need rank >= 2; fall back to 2-d int array index
        return _intarr(rng, n0, (2, 2)), "intarr2d"
    if k == "mixed_adv_slice":
        if rng.uniform() < 0.5:
            return (_intarr(rng, n0), _slice(rng, shape[1])), k
        return (_slice(rng, n0), _intarr(rng, shape[1])), k
    if k == "two_adv":
        m = int(rng.integers(1, 4))
        return (_intarr(rng, n0, (m,)), _intarr(rng, shape[1], (m,))), k
    if k == "adv_bcast":
        return (_intarr(rng, n0, (2, 1)), _intarr(rng, shape[1], (1, 3))), k
    if k == "adv_newaxis":
        return (_intarr(rng, n0), None, _slice(rng, shape[1])), k
    if k == "bool_and_slice":
        return (rng.uniform(size=(n0,)) > 0.4, _slice(rng, shape[1])), k
    return _int(rng, n0), "int"
