"""G-prog: random dataflow programs interpretable against autograd.numpy and raw NumPy.

A program is a JSON-able dict:
  {"shape": [..], "consts": [array...], "ops": [{"op": name, "in": [value ids], "p": params}], "out": [ids], "w": array}
Value ids: 0 = the differentiated input x, 1..nc = constants, then one per op (dead ops allowed).
All values share the shape `shape` so any op can consume any value; shape-changing behaviour is
exercised inside composite ops that return to `shape` (alias chains, gathers, reductions+broadcast).
The scalar output is  sum_k sum(w_k * value[out_k])."""
import numpy as onp

# name -> (arity, kind)
UNARY = ["sin", "cos", "tanh", "expm", "square", "neg", "softplus", "recip"]
BINARY = ["add", "sub", "mul", "divs", "maxs"]
ALIAS = ["reshape_rt", "transpose_rt", "getall", "ravel_rt", "ident_add0", "expand_squeeze", "swap_rt"]
SPARSE = ["gather", "rev", "slice_pad", "take1", "sort_a", "sort_neg"]
REDUCE = ["sum_b", "mean_b", "cumsum", "dot_b", "einsum3", "concat3", "stack_mean", "where2"]
CONTROL = ["if_pos", "while_half", "rec_pow", "closure_scale", "if_truthy", "while_truthy", "nested_indep"]
USER = ["log_scale", "log_mul", "log_tri", "log_ident"]


def gen_program(rng, n_ops=12, shape=(3,), p_dead=0.15, p_multi=0.2, families=("unary", "binary", "alias", "sparse", "reduce", "control", "user"), fan=3, n_out=1):
    nc = int(rng.integers(1, 3))
    consts = [rng.uniform(0.3, 1.5, size=shape) * rng.choice([-1.0, 1.0], size=shape) for _ in range(nc)]
    nvals = 1 + nc
    ops = []
    live = [0]  # ids that depend on x
    pools = {"unary": UNARY, "binary": BINARY, "alias": ALIAS, "sparse": SPARSE, "reduce": REDUCE, "control": CONTROL, "user": USER}
    fams = [f for f in families]
    size = int(onp.prod(shape))
    for k in range(n_ops):
        fam = fams[int(rng.integers(0, len(fams)))]
        name = pools[fam][int(rng.integers(0, len(pools[fam])))]
        # choose inputs: bias towards recently created / high fan-out of a few values
        def pick():
            if rng.uniform() < 0.75:
                hot = live[-fan:] if rng.uniform() < 0.6 else live
                return int(hot[int(rng.integers(0, len(hot)))])
            return int(rng.integers(0, nvals))

        a = pick()
        p = {}
        if name in ("log_tri", "einsum3", "concat3", "stack_mean"):
            b = a if rng.uniform() < p_multi else pick()
            c = b if rng.uniform() < p_multi else pick()
            ins = [a, b, c]
        elif name == "where2":
            ins = [a, pick()]
        elif name in BINARY or name in ("dot_b", "log_mul"):
            b = a if rng.uniform() < p_multi else pick()
            ins = [a, b]
        else:
            ins = [a]
        if name == "gather":
            p["idx"] = [int(t) for t in rng.integers(-size, size, size=size)]
        elif name == "take1":
            p["i"] = int(rng.integers(-size, size))
        elif name == "slice_pad":
            lo = int(rng.integers(0, max(1, size - 1)))
            p["lo"] = lo
        elif name in ("closure_scale", "log_scale"):
            p["c"] = float(rng.uniform(0.5, 1.5))
        elif name == "rec_pow":
            p["n"] = int(rng.integers(1, 4))
        ops.append({"op": name, "in": ins, "p": p})
        vid = nvals
        nvals += 1
        if any(i in live for i in ins):
            if rng.uniform() >= p_dead or k == n_ops - 1:
                live.append(vid)
            # else: value exists but is never offered again (dead branch hanging off a live node)
    outs = []
    cand = [v for v in live if v != 0] or [0]
    for _ in range(n_out):
        outs.append(int(cand[-1 - int(rng.integers(0, min(2, len(cand))))]))
    w = [rng.uniform(0.5, 1.5, size=shape) * rng.choice([-1.0, 1.0], size=shape) for _ in outs]
    return {"shape": list(shape), "consts": consts, "ops": ops, "out": outs, "w": w}


def interpret(prog, x, xp, user=None, on_op=None, blog=None):
    """Evaluate the program. xp = autograd.numpy or numpy. `user` supplies the logging primitives
    (dict name -> callable) - for plain evaluation pass the raw implementations."""
    vals = interpret_values(prog, x, xp, user, on_op, blog)
    tot = 0.0
    for o, w in zip(prog["out"], prog["w"]):
        tot = tot + xp.sum(w * vals[o])
    return tot


def interpret_values(prog, x, xp, user=None, on_op=None, blog=None):
    """All values of the program: [x, consts..., op results...]."""
    shape = tuple(prog["shape"])
    size = int(onp.prod(shape))
    vals = [x] + list(prog["consts"])
    for k, op in enumerate(prog["ops"]):
        name, ins, p = op["op"], op["in"], op["p"]
        a = vals[ins[0]]
        b = vals[ins[1]] if len(ins) > 1 else None
        if on_op:
            on_op(k)
        if name == "sin":
            r = xp.sin(a)
        elif name == "cos":
            r = xp.cos(a)
        elif name == "tanh":
            r = xp.tanh(a)
        elif name == "expm":
            r = xp.exp(-0.3 * a * a)
        elif name == "square":
            r = 0.5 * a**2
        elif name == "neg":
            r = -a
        elif name == "softplus":
            r = xp.log(1.0 + xp.exp(0.5 * a))
        elif name == "recip":
            r = 1.0 / (2.0 + a * a)
        elif name == "add":
            r = a + b
        elif name == "sub":
            r = a - 0.5 * b
        elif name == "mul":
            r = a * b
        elif name == "divs":
            r = a / (1.5 + b * b)
        elif name == "maxs":
            r = xp.maximum(a, 0.3 * b + 0.011)
        elif name == "reshape_rt":
            r = xp.reshape(xp.reshape(a, (size,)), shape)
        elif name == "transpose_rt":
            r = xp.transpose(xp.transpose(a))
        elif name == "getall":
            r = a[...]
        elif name == "ravel_rt":
            r = xp.reshape(xp.ravel(a), shape)
        elif name == "ident_add0":
            r = a + 0.0
        elif name == "expand_squeeze":
            r = xp.squeeze(xp.expand_dims(a, 0), 0)
        elif name == "swap_rt":
            r = xp.swapaxes(xp.swapaxes(a, 0, -1), -1, 0)
        elif name == "gather":
            r = xp.reshape(xp.ravel(a)[onp.array(p["idx"])], shape)
        elif name == "rev":
            r = a[::-1]
        elif name == "slice_pad":
            fl = xp.ravel(a)
            lo = p["lo"]
            r = xp.reshape(xp.concatenate([fl[lo:], fl[:lo] * 0.5]), shape)
        elif name == "take1":
            r = xp.ravel(a)[p["i"]] * onp.ones(shape) + 0.1 * a
        elif name == "sort_a":
            # sorting (a permutation chosen by the values): several sorts of equal length in one program
            r = xp.reshape(xp.sort(xp.ravel(a)), shape) * 0.5 + a * 0.25
        elif name == "sort_neg":
            r = xp.reshape(xp.sort(-xp.ravel(a) * 1.3), shape) * 0.4 - a * 0.1
        elif name == "sum_b":
            r = 0.2 * xp.sum(a) + 0.5 * a
        elif name == "mean_b":
            r = a - xp.mean(a)
        elif name == "cumsum":
            r = xp.reshape(xp.cumsum(xp.ravel(a)), shape) * 0.3
        elif name == "einsum3":
            c_ = vals[ins[2]]
            r = xp.reshape(xp.einsum("i,i,i->i", xp.ravel(a), xp.ravel(b), xp.ravel(c_)), shape) * 0.3 + a
        elif name == "concat3":
            c_ = vals[ins[2]]
            cat = xp.concatenate([xp.ravel(a), xp.ravel(b) * 0.5, xp.ravel(c_) * 0.25])
            r = xp.reshape(cat[:size] + cat[size : 2 * size] + cat[2 * size :], shape)
        elif name == "stack_mean":
            c_ = vals[ins[2]]
            r = xp.mean(xp.stack([a, b, c_ * 2.0]), axis=0)
        elif name == "where2":
            r = xp.where(onp.arange(size).reshape(shape) % 2 == 0, a, b * 0.7)
        elif name == "dot_b":
            r = xp.dot(xp.ravel(a), xp.ravel(b)) * 0.1 + a
        elif name == "if_pos":
            # branch steered by the traced value
            cond = bool(xp.sum(a) > 0)
            if blog is not None:
                blog.append(cond)
            if cond:
                r = xp.sin(a) + a
            else:
                r = xp.cos(a) - a
        elif name == "if_truthy":
            # truthiness of a traced scalar itself (Box.__bool__), zero and non-zero
            z = xp.sum(a) * 0.0
            nz = xp.sum(a * a) + 1.0
            if z:
                r = xp.cos(a) * 3.0
            elif nz:
                r = xp.sin(a) * 0.5 + a
            else:
                r = a * 7.0
            if blog is not None:
                blog.append((bool(z), bool(nz)))
        elif name == "while_truthy":
            r = a
            k = xp.sum(a) * 0.0 + 3.0
            it = 0
            while k and it < 5:
                r = r * 0.9 + 0.05
                k = k - 1.0
                it += 1
            if blog is not None:
                blog.append(it)
        elif name == "while_half":
            r = a
            it = 0
            while xp.max(xp.abs(r)) > 0.7 and it < 6:
                r = r * 0.6 + 0.01
                it += 1
            if blog is not None:
                blog.append(it)
        elif name == "rec_pow":

            def rec(v, n):
                return v if n == 0 else rec(v, n - 1) * xp.tanh(v)

            r = rec(a, p["n"])
        elif name == "closure_scale":
            c = p["c"]
            f = lambda v: (lambda u: u * c + v)(xp.sin(v))
            r = f(a)
        elif name == "nested_indep":
            # an inner differentiation whose function returns a value traced only by the enclosing level
            # (it does not depend on the inner variable): the inner derivative is exactly 0
            if xp is onp:
                r = a + 0.0 * xp.sum(a)
            else:
                from autograd import grad as _grad

                s_outer = xp.sum(a * a)
                inner = _grad(lambda y: s_outer if y > 1.0 else y * s_outer)(2.0)
                r = a + inner
        elif name == "log_tri":
            r = user["log_tri"](a, b, vals[ins[2]], k)
        elif name == "log_scale":
            r = user["log_scale"](a, p["c"], k)
        elif name == "log_mul":
            r = user["log_mul"](a, b, k)
        elif name == "log_ident":
            r = user["log_ident"](a, k)
        else:
            raise ValueError(name)
        vals.append(r)
    return vals


def well_scaled(prog, x, user, bound=1e6):
    """Decided on NumPy only: every intermediate value of the program is finite and moderate, so that
    float64 overflow (inf * 0 in a backward pass) cannot masquerade as a derivative error."""
    try:
        with onp.errstate(all="ignore"):
            vals = interpret_values(prog, x, onp, user)
    except Exception:
        return False
    for v in vals:
        a = onp.asarray(v, dtype=float)
        if not onp.all(onp.isfinite(a)) or (a.size and float(onp.max(onp.abs(a))) > bound):
            return False
    return True


def enc_program(prog):
    from ..common import enc

    return {"shape": prog["shape"], "consts": enc(list(prog["consts"])), "ops": prog["ops"], "out": prog["out"], "w": enc(list(prog["w"]))}


def dec_program(d):
    from ..common import dec

    return {"shape": d["shape"], "consts": dec(d["consts"]), "ops": d["ops"], "out": d["out"], "w": dec(d["w"])}


def structure_signature(prog):
    """Structural class of a program (for distinct counting): op multiset + sharing pattern summary."""
    ops = prog["ops"]
    nconst = len(prog["consts"])
    uses = {}
    multi = 0
    for op in ops:
        if len(op["in"]) == 2 and op["in"][0] == op["in"][1]:
            multi += 1
        for i in set(op["in"]):
            uses[i] = uses.get(i, 0) + 1
    maxfan = max(uses.values()) if uses else 0
    used = set()
    # liveness wrt outputs
    stack = list(prog["out"])
    base = 1 + nconst
    while stack:
        v = stack.pop()
        if v in used:
            continue
        used.add(v)
        if v >= base:
            stack.extend(ops[v - base]["in"])
    dead = sum(1 for k in range(len(ops)) if (base + k) not in used)
    fams = sorted(set(op["op"] for op in ops))
    return {"n_ops": len(ops), "ops": fams, "multi_edges": multi, "max_fanout": maxfan, "dead_ops": dead, "depends_on_x": 0 in used}
