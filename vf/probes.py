"""Probe layer: monitors installed from /verif by rebinding names autograd looks up at call time.
No file under /repo is edited. Every probe records `attached`."""
import threading

import numpy as onp

from . import common


class NodeRec:
    __slots__ = ("node", "fun", "parents", "argnums", "serial", "trace_serial")

    def __init__(self, node, fun, parents, argnums, serial):
        self.node, self.fun, self.parents, self.argnums, self.serial = node, fun, parents, argnums, serial


class PassRec:
    __slots__ = ("end_node", "events", "depth", "g")

    def __init__(self, end_node, depth, g):
        self.end_node, self.depth, self.g = end_node, depth, g
        self.events = []  # (node, received_cotangent, [produced cotangents])


class Probes:
    def __init__(self):
        self.attached = {}
        self.nodes = {}  # id(node) -> NodeRec (node kept alive by the rec)
        self.node_serial = 0
        self.pass_stack = []
        self.passes = []
        self.acc = {}  # branch counters of add_outgrads
        self.acc_log = []
        self.traces = []  # (thread, event, id, top_before, top_after)
        self.keep_values = True
        self.max_passes = 100000
        self._installed = False
        self.foreign = []  # arrays the harness owns (for ownership diagnostics)
        self.owned_shares_foreign = 0

    # ------------------------------------------------------------------ install
    def install(self, node=True, passes=True, acc=True, trace=True):
        common.setup_repo()
        import autograd.core as core
        import autograd.tracer as tracer

        if self._installed:
            return self
        self._installed = True
        P = self
        if node:
            try:
                orig_init = core.VJPNode.__init__

                def init(self_, value, fun, args, kwargs, parent_argnums, parents):
                    orig_init(self_, value, fun, args, kwargs, parent_argnums, parents)
                    P.node_serial += 1
                    rec = NodeRec(self_, fun, tuple(parents), tuple(parent_argnums), P.node_serial)
                    P.nodes[id(self_)] = rec
                    inner = self_.vjp

                    def logged_vjp(g):
                        outs = inner(g)
                        ps = P.pass_stack[-1] if P.pass_stack else None
                        ev = [self_, g, []]
                        if ps is not None:
                            ps.events.append(ev)

                        def gen():
                            for o in outs:
                                ev[2].append(o)
                                yield o

                        return gen()

                    self_.vjp = logged_vjp

                core.VJPNode.__init__ = init
                self.attached["P-node"] = True
            except Exception as e:  # pragma: no cover
                self.attached["P-node"] = "failed: %r" % (e,)
        if passes:
            try:
                orig_bp = core.backward_pass

                def backward_pass(g, end_node):
                    ps = PassRec(end_node, len(P.pass_stack), g)
                    P.pass_stack.append(ps)
                    try:
                        return orig_bp(g, end_node)
                    finally:
                        P.pass_stack.pop()
                        if len(P.passes) < P.max_passes:
                            P.passes.append(ps)

                core.backward_pass = backward_pass
                self.attached["P-pass"] = True
            except Exception as e:  # pragma: no cover
                self.attached["P-pass"] = "failed: %r" % (e,)
        if acc:
            try:
                orig_add = core.add_outgrads

                def add_outgrads(prev, g):
                    sparse = type(g) in core.sparse_object_types
                    if prev:
                        st = "owned" if prev[1] else "shared"
                    else:
                        st = "none"
                    key = "%s+%s" % (st, "sparse" if sparse else "dense")
                    P.acc[key] = P.acc.get(key, 0) + 1
                    out = orig_add(prev, g)
                    try:
                        if out[1] and P.foreign and isinstance(out[0], onp.ndarray):
                            for f in P.foreign:
                                if onp.shares_memory(out[0], f):
                                    P.owned_shares_foreign += 1
                                    break
                    except Exception:
                        pass
                    return out

                core.add_outgrads = add_outgrads
                self.attached["P-acc"] = True
            except Exception as e:  # pragma: no cover
                self.attached["P-acc"] = "failed: %r" % (e,)
        if trace:
            try:
                from contextlib import contextmanager

                orig_new_trace = tracer.TraceStack.new_trace

                @contextmanager
                def new_trace(self_):
                    tid = threading.get_ident()
                    before = getattr(self_, "top", None)
                    with orig_new_trace(self_) as t:
                        P.traces.append((tid, "enter", t, before))
                        yield t
                        P.traces.append((tid, "exit", t, getattr(self_, "top", None)))

                tracer.TraceStack.new_trace = new_trace
                self.attached["P-trace"] = True
            except Exception as e:  # pragma: no cover
                self.attached["P-trace"] = "failed: %r" % (e,)
        return self

    def install_box_sanitizer(self):
        """Box-nesting sanitizer on tracer.new_box (looked up as a module global at every call): the raw value
        wrapped by a box of trace t is either free of boxes, or itself a box of a trace that is not later
        (an enclosing differentiation, or - for primitive(fun) around a closure - the same one). An object-dtype array, or a container with boxes inside, as the value
        of a box means a tracer reached raw NumPy. Violations are recorded in self.box_problems."""
        common.setup_repo()
        import autograd.tracer as tracer

        if getattr(self, "_box_sanitizer", False):
            return self
        self._box_sanitizer = True
        self.box_problems = []
        self.boxes_checked = 0
        P = self
        orig_new_box = tracer.new_box

        def new_box(value, trace, node):
            P.boxes_checked += 1
            try:
                if tracer.isbox(value):
                    # equal ids are legitimate: primitive(fun) around a Python function that closes over a value of
                    # the same trace (checkpoint(f) with a traced closure variable) boxes a result of that trace again
                    if value._trace > trace:
                        P.box_problems.append(("box_nesting_order", "box of trace %r wraps a box of the later trace %r" % (trace, value._trace)))
                elif isinstance(value, onp.ndarray):
                    if value.dtype == object:
                        P.box_problems.append(("object_array_in_box", "value of a new box is an object-dtype array %r" % (value.shape,)))
                elif isinstance(value, (tuple, list, dict)):
                    if common.find_boxes(value):
                        P.box_problems.append(("boxes_inside_raw_container", "value of a new box is a raw %s holding boxes" % type(value).__name__))
            except Exception:  # pragma: no cover - the sanitizer must never change behaviour
                pass
            return orig_new_box(value, trace, node)

        tracer.new_box = new_box
        self.attached["P-box"] = True
        return self

    def reset(self):
        self.nodes.clear()
        self.passes.clear()
        self.pass_stack.clear()
        self.acc_log.clear()
        self.traces.clear()
        self.foreign = []

    # ------------------------------------------------------------------ offline checker
    def check_pass(self, ps):
        """Exactly-once / consumers-first / dead-never / conservation on one recorded backward pass.
        Returns list of (symptom, detail)."""
        from autograd.core import SparseObject, vspace
        from autograd.tracer import isbox

        problems = []
        end = ps.end_node
        # reachable graph through node.parents
        reach = {}
        stack = [end]
        consumers = {}
        while stack:
            n = stack.pop()
            if id(n) in reach:
                continue
            reach[id(n)] = n
            for slot, p in enumerate(n.parents):
                consumers.setdefault(id(p), []).append((n, slot))
                stack.append(p)
        applied = {}
        order = {}
        for i, (n, g, outs) in enumerate(ps.events):
            applied[id(n)] = applied.get(id(n), 0) + 1
            order.setdefault(id(n), i)
        for nid, n in reach.items():
            rec = self.nodes.get(nid)
            if rec is None:
                continue  # root or node created before probes were attached
            c = applied.get(nid, 0)
            if c != 1:
                problems.append(("rule_count", "%s applied %d times in one backward pass" % (getattr(rec.fun, "__name__", "?"), c)))
        for nid in applied:
            if nid not in reach:
                rec = self.nodes.get(nid)
                problems.append(("rule_dead", "%s differentiated although the output does not depend on it" % (getattr(rec.fun, "__name__", "?") if rec else "?")))
        for nid, i in order.items():
            for (c, slot) in consumers.get(nid, []):
                if id(c) in order and order[id(c)] > i:
                    problems.append(("rule_order", "rule applied before a consumer's contribution"))
        if problems:
            return problems
        # conservation (plain passes only)
        try:
            ev_by_node = {id(n): (g, outs) for (n, g, outs) in ps.events}

            def dense(o, like_vs):
                if type(o) is SparseObject:
                    return o.mut_add(o.vs.zeros())
                return o

            for nid, (g, outs) in ev_by_node.items():
                if nid == id(end):
                    continue
                contribs = []
                ok = True
                for (c, slot) in consumers.get(nid, []):
                    cg, couts = ev_by_node.get(id(c), (None, None))
                    if couts is None or slot >= len(couts):
                        ok = False
                        break
                    contribs.append(couts[slot])
                if not ok or not contribs:
                    continue
                if isbox(g) or any(isbox(c) for c in contribs) or common.find_boxes(g):
                    continue
                tot = None
                for c in contribs:
                    d = dense(c, None)
                    fl = common.realify(d)
                    tot = fl if tot is None else tot + fl
                gr = common.realify(g)
                if tot.shape != gr.shape or not onp.allclose(tot, gr, rtol=1e-12, atol=1e-12 * (1 + float(onp.max(onp.abs(tot))) if tot.size else 1.0)):
                    rec = self.nodes.get(nid)
                    problems.append(("conservation", "cotangent received by %s differs from the sum of its consumers' contributions" % (getattr(rec.fun, "__name__", "?") if rec else "?")))
        except Exception as e:
            problems.append(("probe_error", repr(e)[:200]))
        return problems


PROBES = Probes()
