"""Property -> engine module."""
ENGINES = {
    "C01": ("vf.engines.prim", {}),
    "C02": ("vf.engines.prim", {}),
    "C04": ("vf.engines.prim", {}),
    "C05": ("vf.engines.prim", {}),
    "C07": ("vf.engines.prim", {}),
    "C09": ("vf.engines.prim", {}),
    "C03": ("vf.engines.graph", {}),
    "C10": ("vf.engines.graph", {}),
    "C11": ("vf.engines.graph", {}),
    "C08": ("vf.engines.nesting", {}),
    "C06": ("vf.engines.values", {}),
    "C14": ("vf.engines.values", {}),
    "C16": ("vf.engines.ops", {}),
    "C17": ("vf.engines.ext", {}),
    "C13": ("vf.engines.vspaces", {}),
    "C12": ("vf.engines.containers", {}),
    "C18": ("vf.engines.checker", {}),
    "C19": ("vf.engines.history", {}),
    "C20": ("vf.engines.threads", {}),
    "C15": ("vf.engines.battery", {}),
}
PROPS = sorted(ENGINES)
