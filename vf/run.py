"""CLI: python -m vf.run <PID> [--tier quick|thorough] [--replay path] [--seed N]

Shards the property's workload over subprocess workers, aggregates monitor observations,
matches violations against known_findings.json, writes evidence/<PID>.json.
Exit 0 held / 1 violation / 2 inconclusive."""
import argparse
import hashlib
import importlib
import json
import os
import shutil
import subprocess
import sys
import time

from . import common
from .registry import ENGINES, PROPS

VERIF = common.VERIF_DIR
PY = sys.executable


def load_findings():
    p = os.path.join(VERIF, "known_findings.json")
    if not os.path.exists(p):
        return []
    with open(p) as f:
        return json.load(f)["findings"]


def _match_val(m, s):
    if isinstance(m, dict):
        if "__re__" in m:
            import re

            return s is not None and re.fullmatch(m["__re__"], str(s)) is not None
        if "__has__" in m:
            return isinstance(s, (list, tuple)) and m["__has__"] in s
        if "__any_item__" in m:
            return isinstance(s, (list, tuple)) and any(_match_val(m["__any_item__"], x) for x in s)
        if isinstance(s, (list, tuple)):
            # positional: keys are indices
            try:
                return all(int(mk) < len(s) and _match_val(mv, s[int(mk)]) for mk, mv in m.items())
            except ValueError:
                return False
        if not isinstance(s, dict):
            return False
        return all(_match_val(mv, s.get(mk)) for mk, mv in m.items())
    if isinstance(m, list):
        return any(_match_val(x, s) for x in m)
    return m == s


def sig_matches(match, sig):
    if isinstance(match, list):  # alternatives
        return any(sig_matches(m, sig) for m in match)
    return all(_match_val(mv, sig.get(mk)) for mk, mv in match.items())


def spawn(args, out, timeout, env, py=None, extra_env=None):
    e = dict(env)
    if extra_env:
        e.update(extra_env)
    pyl = [PY] if py is None else (list(py) if isinstance(py, (list, tuple)) else [py])
    return subprocess.Popen(pyl + ["-m", "vf.worker"] + args + ["--out", out], cwd=VERIF, env=e, stdout=subprocess.PIPE, stderr=subprocess.STDOUT), time.time() + timeout


def run_workers(jobs, env, timeout, maxpar=16):
    """jobs: list of (name, argv, outpath). Returns {name: result or {'_failed': reason}}."""
    pending = list(jobs)
    running = {}
    results = {}
    while pending or running:
        while pending and len(running) < maxpar:
            job = pending.pop(0)
            name, argv, out = job[:3]
            p, dl = spawn(argv, out, timeout, env, *(job[3:5] if len(job) >= 5 else ()))
            running[name] = (p, dl, out)
        time.sleep(0.05)
        for name in list(running):
            p, dl, out = running[name]
            rc = p.poll()
            if rc is None:
                if time.time() > dl:
                    p.kill()
                    p.wait()
                    results[name] = {"_failed": "timeout"}
                    del running[name]
                continue
            txt = p.stdout.read().decode(errors="replace")
            del running[name]
            if rc != 0 or not os.path.exists(out):
                results[name] = {"_failed": "rc=%s" % rc, "_log": txt[-3000:]}
            else:
                with open(out) as f:
                    results[name] = json.load(f)
    return results


def merge(agg, r):
    agg["evaluations"] += r.get("evaluations", 0)
    for k, n in r.get("judged", {}).items():
        agg["judged"][k] = agg["judged"].get(k, 0) + n
    agg["violations"].extend(r.get("violations", []))
    for k, n in r.get("not_judged", {}).items():
        agg["not_judged"][k] = agg["not_judged"].get(k, 0) + n
    for k, n in r.get("counters", {}).items():
        agg["counters"][k] = agg["counters"].get(k, 0) + n
    for k, vs in r.get("sets", {}).items():
        agg["sets"].setdefault(k, set()).update(vs)
    for k, v in r.get("info", {}).items():
        agg["info"].setdefault(k, v)
    agg["samples"].extend(r.get("samples", []))


def main(argv=None):
    ap = argparse.ArgumentParser()
    ap.add_argument("pid")
    ap.add_argument("--tier", default=os.environ.get("VERIF_TIER", "quick"))
    ap.add_argument("--seed", type=int, default=int(os.environ.get("VERIF_SEED", "0")))
    ap.add_argument("--replay")
    ap.add_argument("--shards", type=int, default=0)
    ap.add_argument("--no-evidence", action="store_true")
    a = ap.parse_args(argv)
    pid = a.pid
    if pid not in ENGINES:
        print("unknown property", pid)
        return 2
    tier = a.tier if a.tier in ("quick", "thorough") else "quick"
    modname, opts = ENGINES[pid]
    t0 = time.time()
    env = dict(os.environ)
    env.update({"PYTHONHASHSEED": "0", "PYTHONDONTWRITEBYTECODE": "1", "OMP_NUM_THREADS": "1", "OPENBLAS_NUM_THREADS": "1", "MKL_NUM_THREADS": "1", "VERIF_REPO": common.REPO})
    env["PYTHONPATH"] = VERIF + os.pathsep + env.get("PYTHONPATH", "")

    work = os.path.join(VERIF, ".work", "%s-%d-%d" % (pid, os.getpid(), int(t0)))
    os.makedirs(work, exist_ok=True)
    os.makedirs(os.path.join(VERIF, "evidence"), exist_ok=True)
    os.makedirs(os.path.join(VERIF, "replays"), exist_ok=True)
    try:
        if a.replay:
            out = os.path.join(work, "replay.json")
            res = run_workers([("replay", [pid, "--replay", os.path.abspath(a.replay)], out)], env, 900)["replay"]
            if "_failed" in res:
                print("INCONCLUSIVE property=%s reason=replay worker failed: %s" % (pid, res))
                print(res.get("_log", ""))
                return 2
            for v in res.get("violations", []):
                print("VIOLATION property=%s replay=%s" % (pid, a.replay))
                print("  sig:", json.dumps(v.get("sig"), sort_keys=True))
                print("  detail:", v.get("detail"))
            if not res.get("violations"):
                print("replay: no violation reproduced (judged=%d, not_judged=%s)" % (sum(res.get("judged", {}).values()), res.get("not_judged")))
            return 1 if res.get("violations") else 0

        eng = importlib.import_module(modname)
        n = a.shards or eng.nshards(pid, tier)
        timeout = eng.shard_timeout(pid, tier) if hasattr(eng, "shard_timeout") else (600 if tier == "quick" else 3000)
        jobs = [("s%d" % i, [pid, "--tier", tier, "--seed", str(a.seed), "--shard", str(i), "--nshards", str(n)], os.path.join(work, "s%d.json" % i)) for i in range(n)]
        secondary = []
        if hasattr(eng, "secondary_jobs"):
            for (nm, py, xenv, argv) in eng.secondary_jobs(pid, tier, a.seed):
                jobs.append(("sec:" + nm, argv, os.path.join(work, "sec_%s.json" % nm), py, xenv))
                secondary.append(nm)
        findings = [f for f in load_findings() if pid in f["properties"]]
        if findings:
            jobs.insert(0, ("witness", [pid, "--witness"], os.path.join(work, "witness.json")))
        results = run_workers(jobs, env, timeout)

        agg = {"evaluations": 0, "judged": {}, "violations": [], "not_judged": {}, "counters": {}, "sets": {}, "samples": [], "info": {}}
        failed = []
        skipped_secondary = []
        for name, r in results.items():
            if name == "witness":
                continue
            if "_failed" in r:
                if name.startswith("sec:"):
                    # the secondary configuration is recorded as skipped, never as held
                    skipped_secondary.append((name, r["_failed"], r.get("_log", "")[-400:]))
                    continue
                failed.append((name, r["_failed"], r.get("_log", "")[-1500:]))
                continue
            if name.startswith("sec:"):
                agg["info"]["secondary:" + name[4:]] = {"evaluations": r.get("evaluations", 0), "judged": sum(r.get("judged", {}).values()), "violations": len(r.get("violations", [])), "info": r.get("info", {})}
            merge(agg, r)
        wit = results.get("witness", {})
        if "_failed" in wit:
            failed.append(("witness", wit["_failed"], wit.get("_log", "")[-1500:]))
            wit = {}
        wit = wit.get("witness", {})

        if os.environ.get("VF_DUMP"):
            with open(os.environ["VF_DUMP"], "w") as fh:
                json.dump({"violations": agg["violations"], "sets": {k: sorted(v) for k, v in agg["sets"].items()}, "not_judged": agg["not_judged"]}, fh)
        # ---- classify violations against known findings
        exit_code = 0
        lines = []
        known_hit = {}
        unknown = {}
        for v in agg["violations"]:
            sig = v["sig"]
            hit = None
            for f in findings:
                if f["status"] == "open" and sig_matches(f["match"], sig):
                    hit = f
                    break
            if hit:
                known_hit.setdefault(hit["id"], []).append(v)
            else:
                unknown.setdefault(common.sig_key(sig), []).append(v)
        for f in findings:
            w = wit.get(f["id"])
            if f["status"] == "open":
                if (w and w.get("reproduces")) or f["id"] in known_hit:
                    lines.append("KNOWN-FINDING: property=%s %s [%s; witness %s; %d matching observations this run]" % (pid, f["what"], f["id"], "reproduces" if w and w.get("reproduces") else "not run/not reproduced", len(known_hit.get(f["id"], []))))
                else:
                    lines.append("NOTE property=%s known finding %s was not observed in this run (witness did not reproduce)" % (pid, f["id"]))
            elif f["status"] == "fixed":
                if w and w.get("reproduces"):
                    path = os.path.join(VERIF, "replays", "%s-fixed-%s.json" % (pid, f["id"]))
                    with open(path, "w") as fh:
                        json.dump({"pid": pid, "case": f["witness"], "sig": w.get("sig"), "detail": w.get("detail")}, fh, indent=1)
                    lines.append("VIOLATION property=%s replay=%s" % (pid, path))
                    lines.append("  (regression of fixed finding %s: %s)" % (f["id"], f["what"]))
                    exit_code = 1
        nviol = 0
        for k, vs in list(unknown.items())[:20]:
            v = vs[0]
            h = hashlib.sha1(k.encode()).hexdigest()[:12]
            path = os.path.join(VERIF, "replays", "%s-%s.json" % (pid, h))
            with open(path, "w") as fh:
                json.dump({"pid": pid, "case": v["case"], "sig": v["sig"], "detail": v.get("detail")}, fh, indent=1)
            lines.append("VIOLATION property=%s replay=%s" % (pid, path))
            lines.append("  sig=%s n=%d detail=%s" % (k, len(vs), str(v.get("detail"))[:300]))
            nviol += 1
            exit_code = 1
        if len(unknown) > 20:
            lines.append("  ... and %d more distinct violating signatures" % (len(unknown) - 20))

        # ---- inconclusive?
        inconclusive = []
        if failed:
            # a worker that died took its share of the workload with it: never report "held" on a partial run
            inconclusive.append("%d/%d workers failed: %s" % (len(failed), len(jobs), failed[0][:2]))
        distinct = len(agg["judged"])
        if distinct < 2:
            inconclusive.append("fewer than 2 distinct judged cases")
        if hasattr(eng, "post"):
            inconclusive.extend(eng.post(pid, tier, agg) or [])
        if inconclusive and exit_code == 0:
            exit_code = 2
            for r in inconclusive:
                lines.append("INCONCLUSIVE property=%s reason=%s" % (pid, r))

        wall = time.time() - t0
        # ---- evidence
        samples = agg["samples"]
        if len(samples) > 12:
            step = max(1, len(samples) // 12)
            samples = samples[::step][:12]
        cov = {
            "evaluations": agg["evaluations"],
            "distinct_nontrivial": distinct,
            "rule": eng.RULE[pid] if isinstance(eng.RULE, dict) else eng.RULE,
            "samples": samples or [{"note": "no samples recorded"}],
            "judged_total": sum(agg["judged"].values()),
            "not_judged": agg["not_judged"],
            "counters": agg["counters"],
            "sets": {k: sorted(v)[:400] for k, v in agg["sets"].items()},
            "set_sizes": {k: len(v) for k, v in agg["sets"].items()},
            "info": agg["info"],
            "shards": len(jobs),
            "failed_workers": [f[:2] for f in failed],
            "secondary_skipped": [list(x) for x in skipped_secondary],
            "known_findings_observed": {k: len(v) for k, v in known_hit.items()},
            "unknown_violation_signatures": len(unknown),
            "inconclusive_reasons": inconclusive,
            "tree": common.tree_rev(),
            "repo": common.REPO,
            "python": sys.version.split()[0],
        }
        if hasattr(eng, "EXHAUSTIVE") and eng.EXHAUSTIVE.get(pid):
            cov["exhaustive_parts"] = eng.EXHAUSTIVE[pid]
        ev = {
            "property_id": pid,
            "tier": tier,
            "seed": a.seed,
            "level": eng.LEVEL[pid] if isinstance(eng.LEVEL, dict) else eng.LEVEL,
            "coverage": cov,
            "assumptions": (eng.ASSUMPTIONS.get(pid, []) if isinstance(eng.ASSUMPTIONS, dict) else list(eng.ASSUMPTIONS)) if hasattr(eng, "ASSUMPTIONS") else [],
            "wall_s": round(wall, 2),
            "violations": nviol,
        }
        if not a.no_evidence:
            with open(os.path.join(VERIF, "evidence", "%s.json" % pid), "w") as fh:
                json.dump(ev, fh, indent=1, sort_keys=True, default=str)
        for l in lines:
            print(l)
        for f in failed[:3]:
            print("WORKER-FAILED", f[0], f[1])
            print(f[2])
        print("%s tier=%s seed=%d: evaluations=%d judged=%d distinct=%d not_judged=%s violations(unknown sigs)=%d known=%s wall=%.1fs exit=%d" % (pid, tier, a.seed, agg["evaluations"], sum(agg["judged"].values()), distinct, agg["not_judged"], len(unknown), {k: len(v) for k, v in known_hit.items()}, wall, exit_code))
        return exit_code
    finally:
        shutil.rmtree(work, ignore_errors=True)


if __name__ == "__main__":
    sys.exit(main())
