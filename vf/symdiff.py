"""O-sym: a small independent symbolic differentiator over an expression AST with nested
derivative nodes. Exact references (float64) for nested / higher-order scalar programs.

AST (tuples): ('c', v) ('v', name) ('+',a,b) ('-',a,b) ('*',a,b) ('/',a,b) ('sin',a) ('cos',a)
('exp',a) ('tanh',a) ('log',a) ('pow',a,n)  ('D', op, var, body, at)
'D' = derivative of `body` w.r.t. `var`, evaluated at var = `at` (op names the autograd operator
used on the autograd side; symbolically they are all the same derivative)."""
import math

import numpy as onp


def C(v):
    return ("c", float(v))


def V(n):
    return ("v", n)


def add(a, b):
    if a[0] == "c" and a[1] == 0.0:
        return b
    if b[0] == "c" and b[1] == 0.0:
        return a
    if a[0] == "c" and b[0] == "c":
        return C(a[1] + b[1])
    return ("+", a, b)


def sub(a, b):
    if b[0] == "c" and b[1] == 0.0:
        return a
    if a[0] == "c" and b[0] == "c":
        return C(a[1] - b[1])
    return ("-", a, b)


def mul(a, b):
    if (a[0] == "c" and a[1] == 0.0) or (b[0] == "c" and b[1] == 0.0):
        return C(0.0)
    if a[0] == "c" and a[1] == 1.0:
        return b
    if b[0] == "c" and b[1] == 1.0:
        return a
    if a[0] == "c" and b[0] == "c":
        return C(a[1] * b[1])
    return ("*", a, b)


def div(a, b):
    if a[0] == "c" and a[1] == 0.0:
        return C(0.0)
    return ("/", a, b)


def powi(a, n):
    if n == 0:
        return C(1.0)
    if n == 1:
        return a
    return ("pow", a, int(n))


_MEMO = {"diff": {}, "subst": {}, "resolve": {}, "eval": {}, "keep": [], "maxabs": [0.0]}


def reset_memo():
    for k in ("diff", "subst", "resolve", "eval"):
        _MEMO[k].clear()
    del _MEMO["keep"][:]
    _MEMO["maxabs"][0] = 0.0


def max_intermediate():
    return _MEMO["maxabs"][0]


def diff(e, x):
    k = (id(e), x)
    m = _MEMO["diff"]
    if k in m:
        return m[k]
    r = _diff(e, x)
    m[k] = r
    _MEMO["keep"].append(e)
    return r


def _diff(e, x):
    t = e[0]
    if t == "c":
        return C(0.0)
    if t == "v":
        return C(1.0 if e[1] == x else 0.0)
    if t == "+":
        return add(diff(e[1], x), diff(e[2], x))
    if t == "-":
        return sub(diff(e[1], x), diff(e[2], x))
    if t == "*":
        return add(mul(diff(e[1], x), e[2]), mul(e[1], diff(e[2], x)))
    if t == "/":
        return sub(div(diff(e[1], x), e[2]), div(mul(e[1], diff(e[2], x)), mul(e[2], e[2])))
    if t == "sin":
        return mul(("cos", e[1]), diff(e[1], x))
    if t == "cos":
        return mul(mul(C(-1.0), ("sin", e[1])), diff(e[1], x))
    if t == "exp":
        return mul(e, diff(e[1], x))
    if t == "tanh":
        return mul(sub(C(1.0), mul(e, e)), diff(e[1], x))
    if t == "log":
        return div(diff(e[1], x), e[1])
    if t == "pow":
        return mul(mul(C(float(e[2])), powi(e[1], e[2] - 1)), diff(e[1], x))
    if t in ("D", "Dvec"):
        return diff(resolve(e), x)
    raise ValueError(t)


def subst(e, name, r):
    k = (id(e), name, id(r))
    m = _MEMO["subst"]
    if k in m:
        return m[k]
    out = _subst(e, name, r)
    m[k] = out
    _MEMO["keep"].append(e)
    _MEMO["keep"].append(r)
    return out


def _subst(e, name, r):
    t = e[0]
    if t == "c":
        return e
    if t == "v":
        return r if e[1] == name else e
    if t == "pow":
        return ("pow", subst(e[1], name, r), e[2])
    if t in ("D", "Dvec"):
        return subst(resolve(e), name, r)
    return (t,) + tuple(subst(a, name, r) for a in e[1:])


def resolve(e):
    """Replace nested derivative nodes by their symbolic value."""
    k = id(e)
    m = _MEMO["resolve"]
    if k in m:
        return m[k]
    out = _resolve(e)
    m[k] = out
    _MEMO["keep"].append(e)
    return out


def _resolve(e):
    t = e[0]
    if t in ("c", "v"):
        return e
    if t == "pow":
        return ("pow", resolve(e[1]), e[2])
    if t == "D":
        _, op, var, body, at = e
        return subst(diff(resolve(body), var), var, resolve(at))
    if t == "Dvec":
        _, op, var, body, ats, ws = e
        d = diff(resolve(body), var)
        tot = C(0.0)
        for a, w in zip(ats, ws):
            tot = add(tot, mul(C(w), subst(d, var, resolve(a))))
        return tot
    return (t,) + tuple(resolve(a) for a in e[1:])


def evaluate(e, env):
    k = (id(e), id(env))
    m = _MEMO["eval"]
    if k in m:
        return m[k]
    out = _evaluate(e, env)
    try:
        a = abs(float(out))
        if a > _MEMO["maxabs"][0] or a != a:
            _MEMO["maxabs"][0] = a if a == a else float("inf")
    except Exception:
        pass
    m[k] = out
    _MEMO["keep"].append(e)
    _MEMO["keep"].append(env)
    return out


def _evaluate(e, env):
    t = e[0]
    if t == "c":
        return e[1]
    if t == "v":
        return env[e[1]]
    if t == "+":
        return evaluate(e[1], env) + evaluate(e[2], env)
    if t == "-":
        return evaluate(e[1], env) - evaluate(e[2], env)
    if t == "*":
        return evaluate(e[1], env) * evaluate(e[2], env)
    if t == "/":
        return evaluate(e[1], env) / evaluate(e[2], env)
    if t == "sin":
        return onp.sin(evaluate(e[1], env))
    if t == "cos":
        return onp.cos(evaluate(e[1], env))
    if t == "exp":
        return onp.exp(evaluate(e[1], env))
    if t == "tanh":
        return onp.tanh(evaluate(e[1], env))
    if t == "log":
        return onp.log(evaluate(e[1], env))
    if t == "pow":
        return evaluate(e[1], env) ** e[2]
    if t in ("D", "Dvec"):
        return evaluate(resolve(e), env)
    raise ValueError(t)


def size(e):
    if e[0] in ("c", "v"):
        return 1
    if e[0] == "pow":
        return 1 + size(e[1])
    if e[0] == "D":
        return 1 + size(e[3]) + size(e[4])
    if e[0] == "Dvec":
        return 1 + size(e[3]) + sum(size(a) for a in e[4])
    return 1 + sum(size(a) for a in e[1:])


def show(e):
    t = e[0]
    if t == "c":
        return "%.3g" % e[1]
    if t == "v":
        return e[1]
    if t in "+-*/":
        return "(%s %s %s)" % (show(e[1]), t, show(e[2]))
    if t == "pow":
        return "%s**%d" % (show(e[1]), e[2])
    if t == "D":
        return "%s(lambda %s: %s)(%s)" % (e[1], e[2], show(e[3]), show(e[4]))
    if t == "Dvec":
        return "sum(w*%s(lambda %s: %s)([%s]))" % (e[1], e[2], show(e[3]), ", ".join(show(a) for a in e[4]))
    return "%s(%s)" % (t, show(e[1]))


# ---------------------------------------------------------------- autograd-side evaluation


def eval_autograd(e, env, anp, ops):
    """Evaluate with traceable operations; 'D' nodes call the real differential operators.
    ops: dict name -> callable(fun, at) returning the derivative value."""
    t = e[0]
    ev = lambda a: eval_autograd(a, env, anp, ops)
    if t == "c":
        return e[1]
    # optional dialect hooks in `ops`: "wrap:v" / "wrap:D" (identity-valued wrappers applied to every variable
    # read / inner derivative value) and "fn:<name>" (replacement implementations of the elementary functions)
    if t == "v":
        return ops["wrap:v"](env[e[1]]) if "wrap:v" in ops else env[e[1]]
    if t == "+":
        return ev(e[1]) + ev(e[2])
    if t == "-":
        return ev(e[1]) - ev(e[2])
    if t == "*":
        return ev(e[1]) * ev(e[2])
    if t == "/":
        return ev(e[1]) / ev(e[2])
    if t in ("sin", "cos", "exp", "tanh", "log"):
        return (ops.get("fn:" + t) or getattr(anp, t))(ev(e[1]))
    if t == "pow":
        return ops["fn:pow"](ev(e[1]), e[2]) if "fn:pow" in ops else ev(e[1]) ** e[2]
    if t == "D":
        _, op, var, body, at = e

        def fun(v):
            env2 = dict(env)
            env2[var] = v
            return eval_autograd(body, env2, anp, ops)

        r = ops[op](fun, ev(at))
        return ops["wrap:D"](r) if "wrap:D" in ops else r
    if t == "Dvec":
        _, op, var, body, ats, ws = e

        def fun(v):
            env2 = dict(env)
            env2[var] = v
            return eval_autograd(body, env2, anp, ops)

        z = anp.array([ev(a) for a in ats])
        return anp.sum(onp.array(ws) * ops["vec:" + op](fun, z))
    raise ValueError(t)
