"""Worker process: runs one shard / one replay / the known-finding witnesses of a property."""
import argparse
import faulthandler
import importlib
import json
import os
import sys
import traceback
import warnings


def main():
    ap = argparse.ArgumentParser()
    ap.add_argument("pid")
    ap.add_argument("--tier", default="quick")
    ap.add_argument("--seed", type=int, default=0)
    ap.add_argument("--shard", type=int, default=0)
    ap.add_argument("--nshards", type=int, default=1)
    ap.add_argument("--replay")
    ap.add_argument("--witness", action="store_true")
    ap.add_argument("--out", required=True)
    a = ap.parse_args()
    faulthandler.enable()
    from . import common
    from .registry import ENGINES

    common.setup_repo()
    modname, opts = ENGINES[a.pid]
    eng = importlib.import_module(modname)
    if a.replay:
        with open(a.replay) as f:
            d = json.load(f)
        res = eng.replay(a.pid, d["case"])
    elif a.witness:
        from .run import load_findings

        out = {}
        for f in load_findings():
            if a.pid not in f["properties"] or "witness" not in f:
                continue
            try:
                w = f["witness"]
                if isinstance(w, dict) and a.pid in w and "prim" not in w:
                    w = w[a.pid]
                elif isinstance(w, dict) and "default" in w and "prim" not in w:
                    w = w["default"]
                if a.pid == "C15" and isinstance(w, dict) and "prim" in w:
                    w = {"kind": "option", "mode": f.get("witness_mode", "rev"), "case": w}
                if a.pid == "C06" and isinstance(w, dict) and "prim" in w:
                    w = {"kind": "cat", "case": w}
                r = eng.replay(a.pid, w)
                vs = r.get("violations", [])
                out[f["id"]] = {"reproduces": bool(vs), "sig": vs[0]["sig"] if vs else None, "detail": vs[0].get("detail") if vs else None, "not_judged": r.get("not_judged")}
            except Exception:
                out[f["id"]] = {"reproduces": False, "error": traceback.format_exc()[-800:]}
        res = {"witness": out}
    else:
        res = eng.run_shard(a.pid, a.tier, a.seed, a.shard, a.nshards)
    with open(a.out + ".tmp", "w") as f:
        json.dump(res, f, default=str)
    os.replace(a.out + ".tmp", a.out)


if __name__ == "__main__":
    warnings.filterwarnings("ignore")
    main()
